//! Worker process: executes a block of run indices, reports over stdout
use crate::core::{minimise, run_one, run_seed, set_quiet, Ctx, Outcome, Tier, Violation, World};
use crate::tape::{fnv1a, mix, Src};
use serde_json::{json, Value};
use std::collections::{BTreeMap, BTreeSet};
use std::io::Write;
use std::sync::atomic::{AtomicU64, Ordering};
use std::sync::Arc;
use std::time::{Duration, Instant};

pub struct WorkerArgs {
    pub prop: String,
    pub tier: Tier,
    pub seed: u64,
    pub start: u64,
    pub stride: u64,
    pub count: u64,
    pub avoid: Vec<String>,
    /// indices for which avoided features are allowed: index % avoid_mod == 0
    pub avoid_mod: u64,
    pub deadline_secs: u64,
    pub min_budget: usize,
    pub run_timeout_secs: u64,
}

fn raw_write(data: &[u8]) {
    // unbuffered write directly to fd 1, so supervisor sees it even if we abort right after
    let mut off = 0;
    while off < data.len() {
        let n = unsafe { libc::write(1, data[off..].as_ptr() as *const libc::c_void, data.len() - off) };
        if n <= 0 {
            break;
        }
        off += n as usize;
    }
}

pub fn trace_hash(trace: &[String]) -> u64 {
    let mut h = 0xcbf29ce484222325u64;
    for line in trace {
        h = mix(h, fnv1a(line.as_bytes()));
    }
    h
}

pub fn ctx_for(args: &WorkerArgs, index: u64) -> Ctx {
    let avoid = if !args.avoid.is_empty() && (args.avoid_mod == 0 || index % args.avoid_mod != 0) {
        args.avoid.clone()
    } else {
        Vec::new()
    };
    Ctx {
        prop: args.prop.clone(),
        tier: args.tier,
        avoid,
    }
}

/// Replay tape with tracing enabled
pub fn replay_traced(world: &World, ctx: &Ctx, tape: &[u32]) -> (Outcome, Vec<String>, Src) {
    let mut src = Src::replay(tape.to_vec());
    src.enable_trace();
    let outcome = run_one(world, ctx, &mut src);
    let trace = src.take_trace();
    (outcome, trace, src)
}

pub fn violation_record(
    world: &World,
    ctx: &Ctx,
    seed: u64,
    index: u64,
    original: &[u32],
    min_tape: &[u32],
    spent: usize,
) -> Option<Value> {
    let (outcome, trace, _) = replay_traced(world, ctx, min_tape);
    let violation = match outcome {
        Outcome::Violation(v) => v,
        _ => return None,
    };
    Some(json!({
        "property": violation.property,
        "world": world.name,
        "tier": ctx.tier.name(),
        "seed": seed,
        "index": index,
        "avoid": ctx.avoid,
        "tape": min_tape,
        "original_tape": original,
        "minimise_candidates": spent,
        "violation": violation.to_json(),
        "trace_hash": format!("{:016x}", trace_hash(&trace)),
        "trace": trace,
    }))
}

pub fn worker_main(world: &World, args: WorkerArgs) -> i32 {
    set_quiet(true);
    let started = Instant::now();
    let deadline = Duration::from_secs(args.deadline_secs.max(1));

    // watchdog: a run that does not finish in time is a hang
    let progress = Arc::new(AtomicU64::new(0));
    let current = Arc::new(AtomicU64::new(u64::MAX));
    {
        let progress = progress.clone();
        let current = current.clone();
        let timeout = args.run_timeout_secs.max(1);
        // The limit is measured in processor time of this process, not in wall-clock time: a
        // run that spins burns it, a worker that merely gets no processor (the machine is
        // shared with other checks) does not, and must not be taken for a hang. A run that
        // sleeps for ever burns none either: for that case there is a wall-clock limit as
        // well, long enough for a loaded machine.
        fn cpu_time() -> Duration {
            let mut ts = libc::timespec { tv_sec: 0, tv_nsec: 0 };
            unsafe { libc::clock_gettime(libc::CLOCK_PROCESS_CPUTIME_ID, &mut ts) };
            Duration::new(ts.tv_sec as u64, ts.tv_nsec as u32)
        }
        std::thread::spawn(move || {
            let mut last = (u64::MAX, 0u64, Instant::now(), cpu_time());
            loop {
                std::thread::sleep(Duration::from_millis(200));
                let p = progress.load(Ordering::SeqCst);
                let c = current.load(Ordering::SeqCst);
                if (c, p) != (last.0, last.1) {
                    last = (c, p, Instant::now(), cpu_time());
                } else if c != u64::MAX
                    && (cpu_time().saturating_sub(last.3) > Duration::from_secs(timeout) || last.2.elapsed() > Duration::from_secs(timeout * 12))
                {
                    raw_write(format!("h {}\n", c).as_bytes());
                    unsafe { libc::_exit(3) };
                }
            }
        });
    }

    let mut runs = 0u64;
    let mut faults: BTreeMap<String, u64> = BTreeMap::new();
    let mut probes: BTreeMap<String, u64> = BTreeMap::new();
    let mut steps = 0u64;
    let mut sim_ns = 0u64;
    let mut nontrivial = 0u64;
    let mut sigs: BTreeSet<u64> = BTreeSet::new();
    let mut all_sigs: BTreeSet<u64> = BTreeSet::new();
    let mut samples: Vec<Value> = Vec::new();
    let mut found: BTreeMap<String, u64> = BTreeMap::new();
    let mut truncated = false;
    let mut viol_runs = 0u64;
    let mut draws = 0u64;

    for i in 0..args.count {
        if started.elapsed() > deadline {
            truncated = true;
            break;
        }
        let index = args.start + i * args.stride;
        raw_write(format!("b {}\n", index).as_bytes());
        current.store(index, Ordering::SeqCst);
        progress.fetch_add(1, Ordering::SeqCst);

        let ctx = ctx_for(&args, index);
        let mut src = Src::record(run_seed(args.seed, world.name, &args.prop, index));
        let outcome = run_one(world, &ctx, &mut src);
        runs += 1;
        draws += src.used.len() as u64;
        for (k, v) in src.faults.iter() {
            *faults.entry(k.to_string()).or_default() += v;
        }
        for (k, v) in src.probes.iter() {
            *probes.entry(k.to_string()).or_default() += v;
        }
        steps += src.steps;
        sim_ns += src.sim_ns;
        if all_sigs.len() < 4_000_000 {
            all_sigs.insert(src.sig);
        }
        if src.nontrivial {
            nontrivial += 1;
            if sigs.len() < 4_000_000 {
                sigs.insert(src.sig);
            }
            if samples.len() < 2 && matches!(outcome, Outcome::Ok) {
                let (_, trace, _) = replay_traced(world, &ctx, &src.used);
                let mut trace = trace;
                trace.truncate(60);
                samples.push(json!({"index": index, "trace": trace}));
            }
        }
        match outcome {
            Outcome::Ok => {}
            Outcome::HarnessError(msg) => {
                raw_write(format!("e {}\n", json!({"index": index, "error": msg})).as_bytes());
                current.store(u64::MAX, Ordering::SeqCst);
                return 2;
            }
            Outcome::Violation(violation) => {
                viol_runs += 1;
                let class = format!("{}|{}", violation.property, violation.kind);
                let seen = found.entry(violation.key()).or_default();
                *seen += 1;
                if *seen == 1 && found.len() <= 6 {
                    // minimise in-process: same property + kind must persist
                    let original = src.used.clone();
                    // announce the unminimised record first: a candidate tape may kill this process
                    if let Some(rec) = violation_record(world, &ctx, args.seed, index, &original, &original, 0) {
                        raw_write(format!("u {}\n", rec).as_bytes());
                    }
                    let mut last_progress = 0u64;
                    let (min_tape, spent) = minimise(&original, args.min_budget, |cand| {
                        last_progress += 1;
                        progress.fetch_add(1, Ordering::SeqCst);
                        let mut s = Src::replay(cand.to_vec());
                        match run_one(world, &ctx, &mut s) {
                            Outcome::Violation(v) => format!("{}|{}", v.property, v.kind) == class,
                            _ => false,
                        }
                    });
                    match violation_record(world, &ctx, args.seed, index, &original, &min_tape, spent) {
                        Some(rec) => raw_write(format!("v {}\n", rec).as_bytes()),
                        None => {
                            // minimised tape did not reproduce: fall back to the original tape
                            match violation_record(world, &ctx, args.seed, index, &original, &original, spent) {
                                Some(rec) => raw_write(format!("v {}\n", rec).as_bytes()),
                                None => {
                                    raw_write(
                                        format!(
                                            "e {}\n",
                                            json!({"index": index, "error": format!("violation does not replay: {:?}", violation)})
                                        )
                                        .as_bytes(),
                                    );
                                    current.store(u64::MAX, Ordering::SeqCst);
                                    return 2;
                                }
                            }
                        }
                    }
                }
            }
        }
    }
    current.store(u64::MAX, Ordering::SeqCst);

    let mut sig_blob = String::with_capacity(sigs.len() * 16);
    for s in sigs.iter() {
        sig_blob.push_str(&format!("{:016x}", s));
    }
    let mut all_blob = String::with_capacity(all_sigs.len() * 16);
    for s in all_sigs.iter() {
        all_blob.push_str(&format!("{:016x}", s));
    }
    let summary = json!({
        "runs": runs,
        "faults": faults,
        "probes": probes,
        "steps": steps,
        "sim_ns": sim_ns,
        "nontrivial": nontrivial,
        "violating_runs": viol_runs,
        "violation_keys": found,
        "draws": draws,
        "truncated": truncated,
        "samples": samples,
        "sigs": sig_blob,
        "all_sigs": all_blob,
        "wall_s": started.elapsed().as_secs_f64(),
    });
    let mut out = std::io::stdout().lock();
    let _ = writeln!(out, "s {}", summary);
    let _ = out.flush();
    0
}

/// Execute single tape (child process used for abort/hang minimisation and replay)
pub fn exec_tape(world: &World, ctx: &Ctx, tape: &[u32]) -> Value {
    let (outcome, trace, src) = replay_traced(world, ctx, tape);
    match outcome {
        Outcome::Ok => json!({"outcome": "ok", "trace_hash": format!("{:016x}", trace_hash(&trace)), "used": src.used.len()}),
        Outcome::Violation(v) => json!({
            "outcome": "violation",
            "violation": v.to_json(),
            "trace_hash": format!("{:016x}", trace_hash(&trace)),
            "trace": trace,
        }),
        Outcome::HarnessError(msg) => json!({"outcome": "harness_error", "error": msg}),
    }
}

pub fn violation_of(v: &Value) -> Option<Violation> {
    Violation::from_json(v.get("violation")?)
}
