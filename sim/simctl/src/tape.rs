//! The tape: the single source of every decision a simulated run makes.
//!
//! A run is a pure function of (tape, code).  In *record* mode values come
//! from a PRNG seeded from (VERIF_SEED, world, run index) and are appended to
//! the tape; in *replay* mode they are read back, and past the end of the tape
//! every draw is 0.  All generators are written so that 0 is the simplest
//! choice, which makes the tape the one thing the minimiser has to shrink.
use std::collections::BTreeMap;

/// SplitMix64 / xoshiro256** PRNG (self-contained, deterministic across platforms)
#[derive(Clone)]
pub struct Rng {
    s: [u64; 4],
}

fn splitmix(x: &mut u64) -> u64 {
    *x = x.wrapping_add(0x9E37_79B9_7F4A_7C15);
    let mut z = *x;
    z = (z ^ (z >> 30)).wrapping_mul(0xBF58_476D_1CE4_E5B9);
    z = (z ^ (z >> 27)).wrapping_mul(0x94D0_49BB_1331_11EB);
    z ^ (z >> 31)
}

impl Rng {
    pub fn new(seed: u64) -> Self {
        let mut x = seed;
        let s = [
            splitmix(&mut x),
            splitmix(&mut x),
            splitmix(&mut x),
            splitmix(&mut x),
        ];
        Self { s }
    }

    pub fn next_u64(&mut self) -> u64 {
        let result = self.s[1].wrapping_mul(5).rotate_left(7).wrapping_mul(9);
        let t = self.s[1] << 17;
        self.s[2] ^= self.s[0];
        self.s[3] ^= self.s[1];
        self.s[1] ^= self.s[2];
        self.s[0] ^= self.s[3];
        self.s[2] ^= t;
        self.s[3] = self.s[3].rotate_left(45);
        result
    }
}

pub fn fnv1a(data: &[u8]) -> u64 {
    let mut h: u64 = 0xcbf29ce484222325;
    for b in data {
        h ^= *b as u64;
        h = h.wrapping_mul(0x100000001b3);
    }
    h
}

pub fn mix(a: u64, b: u64) -> u64 {
    let mut x = a ^ b.wrapping_mul(0x9E37_79B9_7F4A_7C15);
    splitmix(&mut x)
}

enum Mode {
    Record(Rng),
    Replay { tape: Vec<u32>, pos: usize },
}

/// Source of decisions + per run bookkeeping (faults fired, probes, trace, signature)
pub struct Src {
    mode: Mode,
    /// values actually used during this run
    pub used: Vec<u32>,
    /// human readable trace (only collected when enabled)
    trace: Option<Vec<String>>,
    /// faults that actually fired during the run
    pub faults: BTreeMap<&'static str, u64>,
    /// "this rare condition was hit" counters
    pub probes: BTreeMap<&'static str, u64>,
    /// hash of the sequence of (actor, action kind, result kind)
    pub sig: u64,
    /// number of simulation steps executed
    pub steps: u64,
    /// whether run is non-trivial according to the world rule
    pub nontrivial: bool,
    /// simulated nanoseconds covered by the run (worlds with a clock)
    pub sim_ns: u64,
    /// hard cap on draws, protects from runaway generators
    draw_cap: usize,
    /// stream every drawn value to stdout before it is used (abort attribution)
    pub stream: bool,
}

/// Payload used to unwind out of a run that exceeded the draw cap
pub struct DrawCapExceeded;

impl Src {
    pub fn record(seed: u64) -> Self {
        Self::with_mode(Mode::Record(Rng::new(seed)))
    }

    pub fn replay(tape: Vec<u32>) -> Self {
        Self::with_mode(Mode::Replay { tape, pos: 0 })
    }

    fn with_mode(mode: Mode) -> Self {
        Self {
            mode,
            used: Vec::new(),
            trace: None,
            faults: BTreeMap::new(),
            probes: BTreeMap::new(),
            sig: 0xcbf29ce484222325,
            steps: 0,
            nontrivial: false,
            sim_ns: 0,
            draw_cap: 2_000_000,
            stream: false,
        }
    }

    pub fn enable_trace(&mut self) {
        self.trace = Some(Vec::new());
    }

    pub fn tracing(&self) -> bool {
        self.trace.is_some()
    }

    pub fn take_trace(&mut self) -> Vec<String> {
        self.trace.take().unwrap_or_default()
    }

    /// Draw value in `0..n` (`n >= 1`), 0 must be the simplest choice
    pub fn draw(&mut self, n: u32) -> u32 {
        let n = n.max(1);
        if self.used.len() >= self.draw_cap {
            std::panic::resume_unwind(Box::new(DrawCapExceeded));
        }
        let value = match &mut self.mode {
            Mode::Record(rng) => (rng.next_u64() >> 32) as u32 % n,
            Mode::Replay { tape, pos } => {
                let v = tape.get(*pos).copied().unwrap_or(0);
                *pos += 1;
                // keep shrunk tapes valid when the range changed
                if v >= n { n - 1 } else { v }
            }
        };
        if self.stream {
            let line = format!("t {}\n", value);
            unsafe { libc::write(1, line.as_ptr() as *const libc::c_void, line.len()) };
        }
        self.used.push(value);
        value
    }

    /// Inclusive range draw, `lo` is the simplest value
    pub fn range(&mut self, lo: u32, hi: u32) -> u32 {
        debug_assert!(lo <= hi);
        lo + self.draw(hi - lo + 1)
    }

    /// True with probability num/den, false is the simplest choice
    pub fn chance(&mut self, num: u32, den: u32) -> bool {
        let v = self.draw(den);
        v >= den - num.min(den) && num > 0
    }

    pub fn pick<'a, T>(&mut self, items: &'a [T]) -> &'a T {
        let idx = self.draw(items.len() as u32) as usize;
        &items[idx]
    }

    /// Geometric-ish size: small values are likely, `max` possible
    pub fn size(&mut self, max: u32) -> u32 {
        if max == 0 {
            return 0;
        }
        match self.draw(4) {
            0 => self.draw(max.min(4) + 1),
            1 => self.draw(max.min(16) + 1),
            2 => self.draw(max.min(64) + 1),
            _ => self.draw(max + 1),
        }
    }

    /// Log line for the human readable trace (never draws)
    pub fn log(&mut self, f: impl FnOnce() -> String) {
        if let Some(trace) = self.trace.as_mut() {
            if trace.len() < 4000 {
                trace.push(f());
            }
        }
    }

    /// Record that fault of this kind actually fired
    pub fn fault(&mut self, kind: &'static str) {
        *self.faults.entry(kind).or_default() += 1;
        self.nontrivial = true;
    }

    /// Record that rare condition has been hit
    pub fn probe(&mut self, name: &'static str) {
        *self.probes.entry(name).or_default() += 1;
    }

    /// Fold schedule token into the run signature
    pub fn sig(&mut self, token: u64) {
        self.sig = mix(self.sig, token);
        self.steps += 1;
    }

    pub fn sig_str(&mut self, token: &str) {
        self.sig(fnv1a(token.as_bytes()));
    }
}

/// Partition `len` bytes into consecutive chunk lengths (may include empty chunks).
///
/// Drawn so that tape value 0 means "one chunk with everything".
pub fn cuts(src: &mut Src, len: usize, allow_empty: bool) -> Vec<usize> {
    let mut out = Vec::new();
    let mut rest = len;
    let style = src.draw(5);
    match style {
        0 => {
            out.push(len);
            return out;
        }
        1 => {
            // one byte at a time
            out.resize(len, 1);
            return out;
        }
        _ => {}
    }
    while rest > 0 {
        if allow_empty && src.chance(1, 12) {
            out.push(0);
            continue;
        }
        let take = match style {
            2 => 1 + src.draw(3.min(rest as u32)) as usize,
            3 => 1 + src.draw(rest.min(17) as u32) as usize,
            _ => 1 + src.draw(rest as u32) as usize,
        }
        .min(rest);
        out.push(take);
        rest -= take;
    }
    if allow_empty && src.chance(1, 8) {
        out.push(0);
    }
    out
}


/// The live tape moved out of its home for a while (a sink or reader owns it during a call into
/// the code under test) and moved back when this guard is dropped - also when that call panics:
/// without that the recorded tape would be lost with the unwinding and the violation could not
/// be replayed.
pub struct Lent<'a> {
    home: &'a mut Src,
    pub live: Src,
}

impl<'a> Lent<'a> {
    pub fn new(home: &'a mut Src) -> Self {
        let mut live = Src::replay(Vec::new());
        std::mem::swap(home, &mut live);
        Lent { home, live }
    }
}

impl Drop for Lent<'_> {
    fn drop(&mut self) {
        std::mem::swap(self.home, &mut self.live);
    }
}
