//! Run execution, panic attribution, violations and tape minimisation
use crate::tape::{fnv1a, mix, DrawCapExceeded, Src};
use serde_json::{json, Value};
use std::cell::RefCell;
use std::panic::{catch_unwind, AssertUnwindSafe};

#[derive(Clone, Copy, PartialEq, Eq, Debug)]
pub enum Tier {
    Quick,
    Thorough,
}

impl Tier {
    pub fn name(self) -> &'static str {
        match self {
            Tier::Quick => "quick",
            Tier::Thorough => "thorough",
        }
    }

    pub fn parse(s: &str) -> Option<Self> {
        match s {
            "quick" => Some(Tier::Quick),
            "thorough" => Some(Tier::Thorough),
            _ => None,
        }
    }
}

#[derive(Clone, Debug, PartialEq, Eq)]
pub struct Violation {
    pub property: String,
    /// oracle clause
    pub kind: String,
    /// canonical short string computed from the run, keys known findings
    pub signature: String,
    pub detail: String,
}

impl Violation {
    pub fn new(property: &str, kind: &str, signature: impl Into<String>, detail: impl Into<String>) -> Self {
        Self {
            property: property.to_string(),
            kind: kind.to_string(),
            signature: signature.into(),
            detail: detail.into(),
        }
    }

    pub fn to_json(&self) -> Value {
        json!({
            "property": self.property,
            "kind": self.kind,
            "signature": self.signature,
            "detail": self.detail,
        })
    }

    pub fn from_json(v: &Value) -> Option<Self> {
        Some(Self {
            property: v.get("property")?.as_str()?.to_string(),
            kind: v.get("kind")?.as_str()?.to_string(),
            signature: v.get("signature")?.as_str()?.to_string(),
            detail: v.get("detail")?.as_str()?.to_string(),
        })
    }

    pub fn key(&self) -> String {
        format!("{}|{}|{}", self.property, self.kind, self.signature)
    }
}

/// Context handed to a world for one run
pub struct Ctx {
    /// property whose oracle clauses are evaluated
    pub prop: String,
    pub tier: Tier,
    /// risky features that are switched off (known findings keep exploring without them)
    pub avoid: Vec<String>,
}

impl Ctx {
    pub fn avoids(&self, feature: &str) -> bool {
        self.avoid.iter().any(|f| f == feature)
    }
}

pub type WorldResult = Result<(), Violation>;

pub struct World {
    pub name: &'static str,
    pub properties: &'static [&'static str],
    pub run: fn(&Ctx, &mut Src) -> WorldResult,
    /// which components ran real code and which were stubs
    pub real: &'static [&'static str],
    pub stub: &'static [&'static str],
    pub assumptions: &'static [&'static str],
    pub rule: &'static str,
    /// number of runs for (quick, thorough)
    pub runs: fn(&str, Tier) -> u64,
    /// risky feature switches this world understands (for known findings)
    pub features: &'static [&'static str],
}

#[derive(Clone, Debug)]
pub struct PanicInfo {
    pub message: String,
    pub file: String,
    pub line: u32,
}

thread_local! {
    static LAST_PANIC: RefCell<Option<PanicInfo>> = const { RefCell::new(None) };
    static QUIET: std::cell::Cell<bool> = const { std::cell::Cell::new(false) };
}

/// Install panic hook that records message and location instead of printing
pub fn install_panic_hook() {
    let default = std::panic::take_hook();
    std::panic::set_hook(Box::new(move |info| {
        let message = if let Some(s) = info.payload().downcast_ref::<&str>() {
            s.to_string()
        } else if let Some(s) = info.payload().downcast_ref::<String>() {
            s.clone()
        } else {
            "<non-string panic payload>".to_string()
        };
        let (file, line) = info
            .location()
            .map(|l| (l.file().to_string(), l.line()))
            .unwrap_or_else(|| ("<unknown>".to_string(), 0));
        let quiet = QUIET.with(|q| q.get()) && std::env::var_os("SIMCTL_LOUD").is_none();
        LAST_PANIC.with(|p| {
            *p.borrow_mut() = Some(PanicInfo {
                message,
                file,
                line,
            })
        });
        if !quiet {
            default(info);
        }
    }));
}

pub fn set_quiet(quiet: bool) {
    QUIET.with(|q| q.set(quiet));
}

pub enum Outcome {
    Ok,
    Violation(Violation),
    /// bug in the harness itself (panic located in /verif)
    HarnessError(String),
}

/// Is this panic location inside the verification machinery (as opposed to code under test)
fn is_harness_location(file: &str) -> bool {
    file.contains("simctl/src/") || file.contains("shim-rustix/src/")
}

fn short_path(file: &str) -> String {
    // keep only path relative to the crate root so that signatures do not depend
    // on where the repository copy lives
    let root = std::env::var("SNT_REPO").unwrap_or_else(|_| "/repo".to_string());
    if let Some(rest) = file.strip_prefix(&root) {
        return rest.trim_start_matches('/').to_string();
    }
    if let Some(idx) = file.rfind("/src/") {
        let (head, tail) = file.split_at(idx);
        let krate = head.rsplit('/').next().unwrap_or("");
        return format!("{}{}", krate, tail);
    }
    file.to_string()
}

/// Execute a single run of the world with provided source
pub fn run_one(world: &World, ctx: &Ctx, src: &mut Src) -> Outcome {
    LAST_PANIC.with(|p| *p.borrow_mut() = None);
    let result = catch_unwind(AssertUnwindSafe(|| (world.run)(ctx, src)));
    match result {
        Ok(Ok(())) => Outcome::Ok,
        Ok(Err(violation)) => Outcome::Violation(violation),
        Err(payload) => {
            if payload.downcast_ref::<DrawCapExceeded>().is_some() {
                return Outcome::HarnessError("draw cap exceeded".to_string());
            }
            let info = LAST_PANIC.with(|p| p.borrow_mut().take());
            match info {
                Some(info) if is_harness_location(&info.file) => Outcome::HarnessError(format!(
                    "panic in harness at {}:{}: {}",
                    info.file, info.line, info.message
                )),
                Some(info) => {
                    let loc = format!("{}:{}", short_path(&info.file), info.line);
                    Outcome::Violation(Violation::new(
                        &ctx.prop,
                        &format!("{}.panic", ctx.prop),
                        format!("panic@{}", loc),
                        format!("panic at {}: {}", loc, info.message),
                    ))
                }
                None => Outcome::HarnessError("unwind without panic info".to_string()),
            }
        }
    }
}

/// Seed of a single run
pub fn run_seed(seed: u64, world: &str, prop: &str, index: u64) -> u64 {
    mix(mix(mix(seed, fnv1a(world.as_bytes())), fnv1a(prop.as_bytes())), index)
}

/// Generic tape minimiser (Hypothesis style)
///
/// `test` returns true if candidate tape still produces the wanted violation.
pub fn minimise(tape: &[u32], budget: usize, mut test: impl FnMut(&[u32]) -> bool) -> (Vec<u32>, usize) {
    let mut best: Vec<u32> = tape.to_vec();
    let mut spent = 0usize;
    // strip trailing zeros (equivalent tape)
    while best.last() == Some(&0) {
        best.pop();
    }
    let mut improved = true;
    while improved && spent < budget {
        improved = false;
        // 1. delete blocks
        let mut size = (best.len() / 2).max(1);
        while size >= 1 && spent < budget {
            let mut start = 0;
            while start < best.len() && spent < budget {
                let end = (start + size).min(best.len());
                let mut cand = best.clone();
                cand.drain(start..end);
                spent += 1;
                if test(&cand) {
                    best = cand;
                    improved = true;
                } else {
                    start += size;
                }
            }
            if size == 1 {
                break;
            }
            size /= 2;
        }
        // 2. zero blocks
        let mut size = (best.len() / 2).max(1);
        while size >= 1 && spent < budget {
            let mut start = 0;
            while start < best.len() && spent < budget {
                let end = (start + size).min(best.len());
                if best[start..end].iter().any(|v| *v != 0) {
                    let mut cand = best.clone();
                    cand[start..end].iter_mut().for_each(|v| *v = 0);
                    spent += 1;
                    if test(&cand) {
                        best = cand;
                        improved = true;
                    }
                }
                start += size;
            }
            if size == 1 {
                break;
            }
            size /= 2;
        }
        // 3. lower single values (binary search towards 0)
        for idx in 0..best.len() {
            if spent >= budget {
                break;
            }
            if idx >= best.len() || best[idx] == 0 {
                continue;
            }
            let mut lo = 0u32;
            let mut hi = best[idx];
            while lo < hi && spent < budget {
                let mid = lo + (hi - lo) / 2;
                let mut cand = best.clone();
                cand[idx] = mid;
                spent += 1;
                if test(&cand) {
                    hi = mid;
                    best = cand;
                    improved = true;
                } else {
                    lo = mid + 1;
                }
            }
        }
        while best.last() == Some(&0) {
            best.pop();
        }
    }
    (best, spent)
}
