//! World `queue` (C16, first half): real `IOQueue` driven by an interleaved
//! producer (write/flush/drop) and consumer (read/fill_buf+consume/consume_with),
//! checked against the history of attributable bytes.
use crate::core::{Ctx, Tier, Violation, World, WorldResult};
use crate::tape::Src;
use std::io::{BufRead, Read, Write};
use surf_n_term::common::IOQueue;

const P: &str = "C16";

pub fn world() -> World {
    World {
        name: "queue",
        properties: &["C16"],
        run,
        real: &["common::IOQueue"],
        stub: &["producer and consumer schedules", "history oracle over attributable bytes"],
        assumptions: &[
            "BufRead::consume is only called with amt <= fill_buf().len() (the std contract, and what unix.rs does)",
            "a frames_drop call is itself a frame delimiter (bytes queued before it and after it belong to different frames)",
            "Read/BufRead contracts: read() == 0 into a non-empty buffer and an empty fill_buf() mean the end of the data, so they are legal only when len() == 0",
        ],
        rule: "one run = one interleaving of producer ops (write n, flush, clear_but_last) and consumer ops (read n, fill_buf+consume k, consume_with ok/err) on one IOQueue, then a full drain; non-trivial = at least two chunks coexisted or a partial consume happened; distinct = distinct (op kind, size class, result class) sequence",
        runs: |_, tier| match tier {
            Tier::Quick => 400_000,
            Tier::Thorough => 20_000_000,
        },
        features: &[],
    }
}

/// absolute position -> byte written at that position (16 bit counter, two bytes per tick)
pub fn stamp(pos: u64) -> u8 {
    let tick = (pos / 2) as u16;
    let tick = tick.wrapping_mul(40503).wrapping_add(7); // spread values
    if pos % 2 == 0 { (tick >> 8) as u8 } else { tick as u8 }
}

/// History recorder + oracle shared with the `tty` world
///
/// Every byte written is attributable (position stamp) and belongs to a frame;
/// frames are delimited by flush and by drop calls. At the end the output must be
/// explainable as the written stream minus whole frames, each of which is justified by a
/// drop call issued while the frame was complete and untouched; and every reported length
/// must lie in the interval of bytes that could still be read at that moment.
#[derive(Default)]
pub struct History {
    /// frame id of every byte ever written, indexed by absolute position
    pub frame_of: Vec<u32>,
    pub frame: u32,
    /// bytes in the order they came out
    pub out: Vec<u8>,
    /// (time, last complete frame id, number of bytes out so far) at each drop call
    pub drops: Vec<(u64, u32, usize)>,
    /// (time, reported len, bytes written so far, bytes out so far)
    pub lens: Vec<(u64, usize, u64, usize)>,
    pub time: u64,
}

struct Parse {
    /// dropped frames: (index into frames, output index at which the frame was skipped)
    dropped: Vec<(usize, usize)>,
}

impl History {
    pub fn written(&self) -> u64 {
        self.frame_of.len() as u64
    }

    pub fn on_write(&mut self, n: usize) -> Vec<u8> {
        let start = self.written();
        let mut buf = Vec::with_capacity(n);
        for i in 0..n as u64 {
            buf.push(stamp(start + i));
            self.frame_of.push(self.frame);
        }
        self.time += 1;
        buf
    }

    /// Arbitrary payload (not stamped) that still has to be attributable by position
    pub fn on_write_bytes(&mut self, n: usize) {
        for _ in 0..n {
            self.frame_of.push(self.frame);
        }
        self.time += 1;
    }

    pub fn on_flush(&mut self) {
        self.frame += 1;
        self.time += 1;
    }

    pub fn on_drop(&mut self) {
        self.time += 1;
        self.drops.push((self.time, self.frame, self.out.len()));
        self.frame += 1;
    }

    pub fn on_len(&mut self, len: usize) {
        self.time += 1;
        self.lens.push((self.time, len, self.written(), self.out.len()));
    }

    pub fn on_out(&mut self, bytes: &[u8]) {
        self.time += 1;
        self.out.extend_from_slice(bytes);
    }

    fn frames(&self) -> Vec<(u32, usize, usize)> {
        let mut frames = Vec::new();
        let mut start = 0;
        for i in 1..=self.frame_of.len() {
            if i == self.frame_of.len() || self.frame_of[i] != self.frame_of[start] {
                frames.push((self.frame_of[start], start, i));
                start = i;
            }
        }
        frames
    }

    /// Final history check, `drained` means that nothing is left in the queue.
    /// `expected` gives the byte written at absolute position.
    pub fn finish(&self, drained: bool, expected: &dyn Fn(u64) -> u8) -> Result<(), Violation> {
        let frames = self.frames();
        let mut failed: std::collections::HashSet<(usize, usize)> = Default::default();
        let mut parse = Parse { dropped: Vec::new() };
        let mut attempts = 0usize;
        let mut first_error: Option<Violation> = None;
        let mut best_o = 0usize;
        let found = self.search(&frames, 0, 0, drained, expected, &mut parse, &mut failed, &mut attempts, &mut first_error, &mut best_o);
        if found || attempts > 256 {
            // more than 256 candidate explanations (streams with many identical frames): inconclusive
            return Ok(());
        }
        if let Some(err) = first_error {
            return Err(err);
        }
        // no parse at all: classify
        let written = self.written() as usize;
        let signature = if self.out.len() > written { "more-bytes-out-than-written" } else { "stream-mismatch" };
        let around = best_o.saturating_sub(4)..(best_o + 8).min(self.out.len());
        Err(Violation::new(
            P,
            "C16.stream",
            signature,
            format!(
                "output of {} bytes can not be explained as the {} written bytes minus whole untouched frames: explanation breaks at output offset {} (out[{:?}]={:02x?}); frames(id,start,end)={:?}",
                self.out.len(),
                written,
                best_o,
                around.clone(),
                &self.out[around],
                &frames[..frames.len().min(12)]
            ),
        ))
    }

    /// Depth first search over the ways to explain the output. Returns true when an
    /// explanation passes `check`. `structural` is set when at least one complete explanation
    /// exists below this state; only states without any are memoised as failed (whether
    /// `check` passes depends on the frames dropped on the way here, not just on the state).
    #[allow(clippy::too_many_arguments)]
    fn search(
        &self,
        frames: &[(u32, usize, usize)],
        i: usize,
        o: usize,
        drained: bool,
        expected: &dyn Fn(u64) -> u8,
        parse: &mut Parse,
        failed: &mut std::collections::HashSet<(usize, usize)>,
        attempts: &mut usize,
        first_error: &mut Option<Violation>,
        best_o: &mut usize,
    ) -> bool {
        let mut structural = false;
        self.search_inner(frames, i, o, drained, expected, parse, failed, attempts, first_error, best_o, &mut structural)
    }

    #[allow(clippy::too_many_arguments)]
    fn search_inner(
        &self,
        frames: &[(u32, usize, usize)],
        i: usize,
        o: usize,
        drained: bool,
        expected: &dyn Fn(u64) -> u8,
        parse: &mut Parse,
        failed: &mut std::collections::HashSet<(usize, usize)>,
        attempts: &mut usize,
        first_error: &mut Option<Violation>,
        best_o: &mut usize,
        structural: &mut bool,
    ) -> bool {
        *best_o = (*best_o).max(o);
        let mut complete = |parse: &Parse, drained: bool, attempts: &mut usize, first_error: &mut Option<Violation>, structural: &mut bool| -> bool {
            *attempts += 1;
            *structural = true;
            match self.check(frames, parse, drained) {
                Ok(()) => true,
                Err(err) => {
                    first_error.get_or_insert(err);
                    false
                }
            }
        };
        if i == frames.len() {
            if o != self.out.len() {
                return false;
            }
            return complete(parse, drained, attempts, first_error, structural);
        }
        if *attempts > 256 || failed.contains(&(i, o)) {
            return false;
        }
        let mut any_structural = false;
        let (_, start, end) = frames[i];
        let len = end - start;
        // option 1: frame came out (completely; or as a prefix when output ends and queue is not drained)
        let avail = self.out.len() - o;
        let take = len.min(avail);
        let matches = (0..take).all(|k| self.out[o + k] == expected((start + k) as u64));
        if matches && take == len {
            let mut sub = false;
            if self.search_inner(frames, i + 1, o + len, drained, expected, parse, failed, attempts, first_error, best_o, &mut sub) {
                return true;
            }
            any_structural |= sub;
        } else if matches && !drained && o + take == self.out.len() {
            // partially transmitted front frame, rest is still queued
            let mut sub = false;
            if complete(parse, false, attempts, first_error, &mut sub) {
                return true;
            }
            any_structural |= sub;
        } else if matches {
            *best_o = (*best_o).max(o + take);
        }
        // option 2: frame was dropped as a whole
        if !(o == self.out.len() && !drained) {
            parse.dropped.push((i, o));
            let mut sub = false;
            let ok = self.search_inner(frames, i + 1, o, drained, expected, parse, failed, attempts, first_error, best_o, &mut sub);
            parse.dropped.pop();
            if ok {
                return true;
            }
            any_structural |= sub;
        } else {
            // output exhausted and queue not drained: remaining frames are simply still pending
            let mut sub = false;
            if complete(parse, false, attempts, first_error, &mut sub) {
                return true;
            }
            any_structural |= sub;
        }
        if !any_structural {
            failed.insert((i, o));
        }
        *structural |= any_structural;
        false
    }

    fn check(&self, frames: &[(u32, usize, usize)], parse: &Parse, drained: bool) -> Result<(), Violation> {
        // every dropped frame must be justified by a drop call at which it was complete and untouched
        let mut first_drop: Vec<(usize, u64)> = Vec::new();
        for (fi, out_idx) in parse.dropped.iter() {
            let (id, start, end) = frames[*fi];
            let justified = self.drops.iter().find(|(_, complete, out_at)| id <= *complete && *out_at <= *out_idx);
            match justified {
                Some((t, _, _)) => first_drop.push((*fi, *t)),
                None => {
                    return Err(Violation::new(
                        P,
                        "C16.lost",
                        "frame-lost-without-drop",
                        format!(
                            "frame {} (bytes {}..{}) never reached the output although no frames_drop call was issued while it was complete and untouched (drop calls (time, last complete frame, bytes out): {:?})",
                            id, start, end, self.drops
                        ),
                    ));
                }
            }
        }
        if !drained {
            return Ok(());
        }
        // reported length must equal the number of bytes that could still be read at that time
        let last_drop = self.drops.last().map(|d| d.0).unwrap_or(0);
        for (t, reported, written, out) in self.lens.iter() {
            let base = *written as i64 - *out as i64;
            let mut gone_min = 0i64; // certainly discarded by time t
            let mut gone_max = 0i64; // possibly discarded by time t
            for (fi, first) in first_drop.iter() {
                let (_, start, end) = frames[*fi];
                if start as u64 >= *written {
                    continue;
                }
                let len = (end.min(*written as usize) - start) as i64;
                if *first <= *t {
                    gone_max += len;
                }
                if last_drop <= *t {
                    gone_min += len;
                }
            }
            let lo = base - gone_max;
            let hi = base - gone_min;
            if (*reported as i64) < lo || (*reported as i64) > hi {
                return Err(Violation::new(
                    P,
                    "C16.len",
                    if (*reported as i64) > hi { "len-too-large" } else { "len-too-small" },
                    format!(
                        "at step {} len() reported {} but between {} and {} bytes could still be read (written {}, read {}, frames discarded by drop calls: {:?})",
                        t,
                        reported,
                        lo,
                        hi,
                        written,
                        out,
                        parse.dropped.iter().map(|(fi, _)| frames[*fi]).collect::<Vec<_>>()
                    ),
                ));
            }
        }
        Ok(())
    }
}

fn run(ctx: &Ctx, src: &mut Src) -> WorldResult {
    let max_ops = if ctx.tier == Tier::Quick { 24 } else { 60 };
    let ops = 1 + src.draw(max_ops);
    let mut q = IOQueue::new();
    let mut h = History::default();
    let mut multi_chunk = false;
    let mut partial = false;
    for _ in 0..ops {
        let op = src.draw(8);
        match op {
            0 | 1 => {
                let n = src.size(40) as usize;
                let buf = h.on_write(n);
                let res = q.write(&buf);
                src.log(|| format!("write({}) -> {:?}", n, res.as_ref().ok()));
                src.sig(0x1000 + n.min(3) as u64);
                if !matches!(res, Ok(k) if k == n) {
                    return Err(Violation::new(P, "C16.order", "short-queue-write", format!("IOQueue::write accepted {:?} of {}", res.ok(), n)));
                }
            }
            2 => {
                let _ = q.flush();
                h.on_flush();
                src.log(|| "flush".to_string());
                src.sig(0x2000);
            }
            3 => {
                q.clear_but_last();
                h.on_drop();
                src.log(|| format!("clear_but_last -> chunks={} len={}", q.chunks_count(), q.len()));
                src.sig(0x3000);
                src.probe("drop-call");
            }
            4 => {
                let n = src.size(48) as usize;
                let mut buf = vec![0u8; n];
                let got = q.read(&mut buf).unwrap_or(0);
                src.log(|| format!("read({}) -> {}", n, got));
                src.sig(0x4000 + (got.min(2) as u64) * 2 + (got < n) as u64);
                if got > n {
                    return Err(Violation::new(P, "C16.order", "read-overrun", format!("read({n}) returned {got}")));
                }
                // `Read`: 0 bytes into a non-empty buffer is the end of the data, a reader
                // (read_to_end, lines) stops there; the queue may say so only when nothing
                // can still be read from it
                if got == 0 && n > 0 && q.len() > 0 {
                    src.probe("end-of-data-reported-with-bytes-left");
                    return Err(Violation::new(
                        P,
                        "C16.len",
                        "end-of-data-with-bytes-left",
                        format!("read({n}) returned 0 (end of data for a reader) while len() reports {} bytes still to be read", q.len()),
                    ));
                }
                h.on_out(&buf[..got]);
            }
            5 => {
                let slice = q.fill_buf().unwrap_or(&[]).to_vec();
                // `BufRead`: an empty buffer means the end of the data
                if slice.is_empty() && q.len() > 0 {
                    src.probe("end-of-data-reported-with-bytes-left");
                    return Err(Violation::new(
                        P,
                        "C16.len",
                        "end-of-data-with-bytes-left",
                        format!("fill_buf() returned an empty buffer (end of data for a reader) while len() reports {} bytes still to be read", q.len()),
                    ));
                }
                let k = if slice.is_empty() { 0 } else { src.draw(slice.len() as u32 + 1) as usize };
                if k > 0 && k < slice.len() {
                    partial = true;
                    src.probe("partial-consume");
                }
                src.log(|| format!("fill_buf -> {} bytes; consume({})", slice.len(), k));
                src.sig(0x5000 + (k.min(2) as u64) * 2 + (k < slice.len()) as u64);
                h.on_out(&slice[..k]);
                BufRead::consume(&mut q, k);
            }
            6 => {
                let fail = src.chance(1, 4);
                let frac = src.draw(3);
                let mut taken: Vec<u8> = Vec::new();
                let res: Result<usize, ()> = q.consume_with(|slice| {
                    if fail {
                        return Err(());
                    }
                    let k = match frac {
                        0 => slice.len(),
                        1 => slice.len() / 2,
                        _ => slice.len().min(1),
                    };
                    taken.extend_from_slice(&slice[..k]);
                    Ok(k)
                });
                if fail {
                    src.fault("consumer-error");
                }
                src.log(|| format!("consume_with(fail={}) -> {:?}", fail, res));
                src.sig(0x6000 + frac as u64 * 2 + fail as u64);
                h.on_out(&taken);
            }
            _ => {
                // observers
                let slice_len = q.as_slice().len();
                let empty = q.is_empty();
                if empty && (slice_len != 0) {
                    return Err(Violation::new(P, "C16.len", "empty-but-readable", "is_empty() but as_slice() is not empty".to_string()));
                }
                src.sig(0x7000 + q.chunks_count().min(3) as u64);
            }
        }
        if q.chunks_count() > 1 {
            multi_chunk = true;
        }
        h.on_len(q.len());
    }
    // drain completely
    let mut guard = 0;
    let mut buf = [0u8; 64];
    while !q.is_empty() || q.len() != 0 {
        guard += 1;
        if guard > 10_000 {
            break;
        }
        if q.is_empty() {
            break;
        }
        let got = q.read(&mut buf).unwrap_or(0);
        h.on_out(&buf[..got]);
        h.on_len(q.len());
    }
    if q.is_empty() && q.chunks_count() == 0 {
        src.log(|| format!("drained: len()={}", q.len()));
    }
    h.on_len(q.len());
    src.nontrivial |= multi_chunk || partial;
    if multi_chunk {
        src.probe("two-chunks-coexist");
    }
    h.finish(true, &stamp)
}
