//! World `sgr` (C06): the library's own encoder output cut by a chunking transport and
//! read back by its own command decoder (round trip), and SGR histories written through
//! the escape-sequence cell writer compared with a reference SGR state machine.
use crate::core::{Ctx, Tier, Violation, World, WorldResult};
use crate::tape::{cuts, Src};
use std::io::Write;
use surf_n_term::decoder::{Decoder, TTYCommandDecoder};
use surf_n_term::encoder::{ColorDepth, Encoder, TTYEncoder};
use surf_n_term::render::CellKind;
use surf_n_term::{Cell, CellWrite, Face, FaceAttrs, FaceModify, TerminalCaps, TerminalCommand, UnderlineStyle, RGBA};

const P: &str = "C06";

pub fn world() -> World {
    World {
        name: "sgr",
        properties: &["C06"],
        run,
        real: &[
            "encoder::TTYEncoder (true colour)",
            "decoder::TTYCommandDecoder",
            "face::FaceModify::apply, face::FaceAttrs",
            "render::CellWrite::tty_writer (TTYCellWriter) on a recording CellWrite",
        ],
        stub: &["chunking transport between encoder and decoder / writer", "reference SGR state machine"],
        assumptions: &[
            "SGR semantics: 0/empty reset; 1 bold on, 21 (the library's own) and 22 bold off; 39/49 default colours and 7/27 reverse video (one run in eight while the known finding about them is open); 3/23 italic; 4, 4:1..4:5 underline styles, 24 underline off; 5/25 blink; 9/29 strike; 30-37, 90-97, 40-47, 100-107 named colours; 38/48/58 with ;5;n, ;2;r;g;b, :2:r:g:b and :2::r:g:b forms",
            "palette: 16 system colours as in the library's fixed table, xterm colour cube and grey ramp",
            "reverse video and default-colour parameters (7, 27, 39, 49) are outside the property (a face-modification record can not express them)",
        ],
        rule: "one run = one history of Face / FaceModify / Char commands encoded in true colour, cut by a drawn schedule and decoded, or one history of SGR sequences and text written through tty_writer under a drawn schedule; non-trivial = a cut fell inside an escape sequence or multi-byte character; distinct = distinct hash of (item kinds, parameter classes, cut classes)",
        runs: |_, tier| match tier {
            Tier::Quick => 900_000,
            Tier::Thorough => 30_000_000,
        },
        features: &["sgr-default-colour-or-reverse"],
    }
}

fn color(src: &mut Src) -> RGBA {
    match src.draw(4) {
        0 => RGBA::new(1, 2, 3, 255),
        1 => RGBA::new(255, 0, 128, 255),
        2 => RGBA::new(0, 0, 0, 255),
        _ => RGBA::new(src.draw(256) as u8, src.draw(256) as u8, src.draw(256) as u8, 255),
    }
}

fn opt_color(src: &mut Src) -> Option<RGBA> {
    if src.chance(1, 2) {
        Some(color(src))
    } else {
        None
    }
}

fn opt_bool(src: &mut Src) -> Option<bool> {
    match src.draw(3) {
        0 => None,
        1 => Some(true),
        _ => Some(false),
    }
}

const UNDERLINES: &[UnderlineStyle] = &[
    UnderlineStyle::None,
    UnderlineStyle::Straight,
    UnderlineStyle::Double,
    UnderlineStyle::Curly,
    UnderlineStyle::Dotted,
    UnderlineStyle::Dashed,
];

fn gen_char(src: &mut Src) -> char {
    match src.draw(6) {
        0 => 'a',
        1 => *src.pick(&['[', 'm', ';', '0', '~', ' ']),
        2 => *src.pick(&['é', '宽', '🤩', '\u{80}', '\u{9b}']),
        3 => *src.pick(&['\n', '\t', '\u{7}', '\u{0}']),
        _ => {
            let v = src.draw(0x11_0000);
            match char::from_u32(v) {
                Some(c) if c != '\x1b' => c,
                _ => 'x',
            }
        }
    }
}

fn attrs_of(underline: UnderlineStyle, flags: u32) -> FaceAttrs {
    let mut attrs: FaceAttrs = underline.into();
    for (bit, flag) in [(1, FaceAttrs::BOLD), (2, FaceAttrs::ITALIC), (4, FaceAttrs::BLINK), (8, FaceAttrs::REVERSE), (16, FaceAttrs::STRIKE)] {
        if flags & bit != 0 {
            attrs = attrs.insert(flag);
        }
    }
    attrs
}

fn run(ctx: &Ctx, src: &mut Src) -> WorldResult {
    if src.chance(1, 2) {
        run_semantics(ctx, src)
    } else {
        run_roundtrip(ctx, src)
    }
}

/// decode stream under a schedule
fn decode_all(stream: &[u8], cuts: &[usize]) -> Result<Vec<TerminalCommand>, String> {
    let mut decoder = TTYCommandDecoder::new();
    let mut out = Vec::new();
    let mut off = 0;
    for cut in cuts {
        let chunk = &stream[off..off + cut];
        off += cut;
        let mut cur = std::io::Cursor::new(chunk);
        loop {
            match decoder.decode(&mut cur) {
                Ok(Some(cmd)) => out.push(cmd),
                Ok(None) => break,
                Err(err) => return Err(format!("{:?}", err)),
            }
        }
    }
    // flush: a byte that can not continue anything forces pending candidates out
    let mut cur = std::io::Cursor::new(&[0xFFu8][..]);
    while let Ok(Some(cmd)) = decoder.decode(&mut cur) {
        out.push(cmd);
    }
    if out.last() == Some(&TerminalCommand::Raw(vec![0xFF])) {
        out.pop();
    }
    Ok(out)
}

fn run_roundtrip(ctx: &Ctx, src: &mut Src) -> WorldResult {
    let n = 1 + src.size(if ctx.tier == Tier::Quick { 8 } else { 24 }) as usize;
    let mut encoder = TTYEncoder::new(TerminalCaps { depth: ColorDepth::TrueColor, glyphs: false, kitty_keyboard: false });
    let mut stream = Vec::new();
    let mut expected: Vec<TerminalCommand> = Vec::new();
    let mut boundaries = Vec::new();
    for _ in 0..n {
        let cmd = match src.draw(3) {
            0 => {
                let underline = *src.pick(UNDERLINES);
                let flags = src.draw(32);
                let face = Face::new(opt_color(src), opt_color(src), attrs_of(underline, flags));
                expected.push(TerminalCommand::FaceModify(FaceModify {
                    reset: true,
                    fg: face.fg,
                    bg: face.bg,
                    underline: if underline == UnderlineStyle::None { None } else { Some(underline) },
                    underline_color: None,
                    bold: if flags & 1 != 0 { Some(true) } else { None },
                    italic: if flags & 2 != 0 { Some(true) } else { None },
                    blink: if flags & 4 != 0 { Some(true) } else { None },
                    strike: if flags & 16 != 0 { Some(true) } else { None },
                }));
                src.sig(0x10 + flags as u64);
                TerminalCommand::Face(face)
            }
            1 => {
                let modify = FaceModify {
                    reset: src.chance(1, 3),
                    fg: opt_color(src),
                    bg: opt_color(src),
                    underline: if src.chance(1, 2) { Some(*src.pick(UNDERLINES)) } else { None },
                    underline_color: opt_color(src),
                    bold: opt_bool(src),
                    italic: opt_bool(src),
                    blink: opt_bool(src),
                    strike: opt_bool(src),
                };
                if modify != FaceModify::default() {
                    expected.push(TerminalCommand::FaceModify(modify));
                }
                src.sig(0x40);
                TerminalCommand::FaceModify(modify)
            }
            _ => {
                let c = gen_char(src);
                expected.push(TerminalCommand::Char(c));
                src.sig(0x50);
                TerminalCommand::Char(c)
            }
        };
        src.log(|| format!("encode {:?}", cmd));
        let before = stream.len();
        encoder.encode(&mut stream, cmd).map_err(|e| Violation::new(P, "C06.encode-error", "encode-error", format!("{e:?}")))?;
        boundaries.push((before, stream.len()));
    }
    src.log(|| format!("stream={:?}", String::from_utf8_lossy(&stream.iter().flat_map(|b| std::ascii::escape_default(*b)).collect::<Vec<u8>>())));
    let k = if ctx.tier == Tier::Quick { 2 } else { 4 };
    let mut schedules = vec![vec![stream.len()], vec![1; stream.len()]];
    for _ in 0..k {
        schedules.push(cuts(src, stream.len(), true));
    }
    for schedule in schedules.iter() {
        let mut off = 0;
        if schedule.iter().any(|c| {
            off += c;
            boundaries.iter().any(|(s, e)| *s < off && off < *e)
        }) {
            src.nontrivial = true;
            src.probe("cut-inside-encoded-command");
        }
        let got = decode_all(&stream, schedule).map_err(|e| Violation::new(P, "C06.decode-error", "decode-error", e))?;
        if got != expected {
            let idx = got.iter().zip(expected.iter()).position(|(a, b)| a != b).unwrap_or(got.len().min(expected.len()));
            let signature = match (got.get(idx), expected.get(idx)) {
                (Some(TerminalCommand::FaceModify(a)), Some(TerminalCommand::FaceModify(b))) => {
                    let mut fields = Vec::new();
                    if a.fg != b.fg {
                        fields.push("fg");
                    }
                    if a.bg != b.bg {
                        fields.push("bg");
                    }
                    if a.underline != b.underline {
                        fields.push("underline");
                    }
                    if a.underline_color != b.underline_color {
                        fields.push("underline_color");
                    }
                    if a.bold != b.bold || a.italic != b.italic || a.blink != b.blink || a.strike != b.strike {
                        fields.push("flags");
                    }
                    if a.reset != b.reset {
                        fields.push("reset");
                    }
                    format!("face-modify:{}", fields.join(","))
                }
                (Some(TerminalCommand::Char(_)), Some(TerminalCommand::Char(_))) => "char".to_string(),
                _ => "sequence-shape".to_string(),
            };
            return Err(Violation::new(
                P,
                "C06.roundtrip",
                signature,
                format!(
                    "encoder output {:?} read back (schedule of {} reads) as {:?}, expected {:?} (item {})",
                    String::from_utf8_lossy(&stream.iter().flat_map(|b| std::ascii::escape_default(*b)).collect::<Vec<u8>>()),
                    schedule.len(),
                    got.get(idx),
                    expected.get(idx),
                    idx
                ),
            ));
        }
    }
    Ok(())
}

// ---------------------------------------------------------------- SGR semantics through tty_writer

#[derive(Default)]
struct Recorder {
    face: Face,
    wraps: bool,
    cells: Vec<Cell>,
}

impl CellWrite for Recorder {
    fn face(&self) -> Face {
        self.face
    }

    fn set_face(&mut self, face: Face) -> Face {
        std::mem::replace(&mut self.face, face)
    }

    fn wraps(&self) -> bool {
        self.wraps
    }

    fn set_wraps(&mut self, wraps: bool) -> bool {
        std::mem::replace(&mut self.wraps, wraps)
    }

    fn put_cell(&mut self, cell: Cell) -> bool {
        self.cells.push(cell);
        true
    }
}

const SYSTEM: [(u8, u8, u8); 16] = [
    (0, 0, 0),
    (128, 0, 0),
    (0, 128, 0),
    (128, 128, 0),
    (0, 0, 128),
    (128, 0, 128),
    (0, 128, 128),
    (192, 192, 192),
    (128, 128, 128),
    (255, 0, 0),
    (0, 255, 0),
    (255, 255, 0),
    (0, 0, 255),
    (255, 0, 255),
    (0, 255, 255),
    (255, 255, 255),
];

pub(crate) fn palette(index: u32) -> RGBA {
    if index < 16 {
        let (r, g, b) = SYSTEM[index as usize];
        RGBA::new(r, g, b, 255)
    } else if index < 232 {
        let i = index - 16;
        let level = |v: u32| if v == 0 { 0 } else { (55 + 40 * v) as u8 };
        RGBA::new(level(i / 36), level((i / 6) % 6), level(i % 6), 255)
    } else {
        let v = (8 + 10 * (index - 232)) as u8;
        RGBA::new(v, v, v, 255)
    }
}

/// reference SGR state: colours and attributes, each set or cleared independently
#[derive(Clone, Copy, Default, Debug, PartialEq)]
struct RefFace {
    fg: Option<RGBA>,
    bg: Option<RGBA>,
    underline: Option<UnderlineStyle>,
    bold: bool,
    italic: bool,
    blink: bool,
    strike: bool,
    reverse: bool,
}

impl RefFace {
    fn to_face(self) -> Face {
        let mut attrs: FaceAttrs = self.underline.unwrap_or(UnderlineStyle::None).into();
        for (on, flag) in [(self.bold, FaceAttrs::BOLD), (self.italic, FaceAttrs::ITALIC), (self.blink, FaceAttrs::BLINK), (self.strike, FaceAttrs::STRIKE), (self.reverse, FaceAttrs::REVERSE)] {
            if on {
                attrs = attrs.insert(flag);
            }
        }
        Face::new(self.fg, self.bg, attrs)
    }
}

/// one SGR parameter (possibly a multi part colour), returns text and applies to the reference
/// `defaults`: also the parameters that select the default colours (39, 49) and reverse video
/// (7, 27) - what a face can hold but a face modification cannot say (known finding)
fn gen_param(src: &mut Src, state: &mut RefFace, defaults: &mut Option<bool>) -> String {
    let kind = if defaults.is_some() && src.chance(1, 6) { 16 + src.draw(3) } else { src.draw(16) };
    match kind {
        16 => {
            *defaults = Some(true);
            state.fg = None;
            "39".into()
        }
        17 => {
            *defaults = Some(true);
            state.bg = None;
            "49".into()
        }
        18 => {
            *defaults = Some(true);
            let on = src.chance(1, 2);
            state.reverse = on;
            if on { "7".into() } else { "27".into() }
        }
        0 => {
            *state = RefFace::default();
            (*src.pick(&["0", "", "00"])).to_string()
        }
        1 => {
            state.bold = true;
            "1".into()
        }
        2 => {
            state.bold = false;
            // (21 is what the library writes; 22 is "normal intensity" everywhere)
            (*src.pick(&["21", "22"])).to_string()
        }
        3 => {
            let on = src.chance(1, 2);
            state.italic = on;
            if on { "3".into() } else { "23".into() }
        }
        4 => {
            let style = *src.pick(&[UnderlineStyle::Straight, UnderlineStyle::Double, UnderlineStyle::Curly, UnderlineStyle::Dotted, UnderlineStyle::Dashed]);
            state.underline = Some(style);
            match style {
                UnderlineStyle::Straight => (*src.pick(&["4", "4:1"])).to_string(),
                UnderlineStyle::Double => "4:2".into(),
                UnderlineStyle::Curly => "4:3".into(),
                UnderlineStyle::Dotted => "4:4".into(),
                _ => "4:5".into(),
            }
        }
        5 => {
            state.underline = None;
            // (`4:0` is the "no underline" member of the `4:n` family the library reads)
            (*src.pick(&["24", "4:0"])).to_string()
        }
        6 => {
            let on = src.chance(1, 2);
            state.blink = on;
            if on { "5".into() } else { "25".into() }
        }
        7 => {
            let on = src.chance(1, 2);
            state.strike = on;
            if on { "9".into() } else { "29".into() }
        }
        8 => {
            let i = src.draw(8);
            state.fg = Some(palette(i));
            format!("{}", 30 + i)
        }
        9 => {
            let i = src.draw(8);
            state.fg = Some(palette(8 + i));
            format!("{}", 90 + i)
        }
        10 => {
            let i = src.draw(8);
            state.bg = Some(palette(i));
            format!("{}", 40 + i)
        }
        11 => {
            let i = src.draw(8);
            state.bg = Some(palette(8 + i));
            format!("{}", 100 + i)
        }
        12 | 13 => {
            // 256 colour form
            let index = *src.pick(&[0u32, 7, 15, 16, 21, 196, 231, 232, 244, 255]);
            let role = src.draw(2);
            let sep = if src.chance(1, 3) { ':' } else { ';' };
            if role == 0 {
                state.fg = Some(palette(index));
            } else {
                state.bg = Some(palette(index));
            }
            format!("{}{sep}5{sep}{}", if role == 0 { 38 } else { 48 }, index)
        }
        _ => {
            // true colour forms
            let c = color(src);
            let [r, g, b, _] = {
                use surf_n_term::Color;
                c.to_rgba()
            };
            let role = src.draw(2);
            if role == 0 {
                state.fg = Some(c);
            } else {
                state.bg = Some(c);
            }
            let code = if role == 0 { 38 } else { 48 };
            match src.draw(3) {
                0 => format!("{code};2;{r};{g};{b}"),
                1 => format!("{code}:2:{r}:{g}:{b}"),
                _ => format!("{code}:2::{r}:{g}:{b}"),
            }
        }
    }
}

fn run_semantics(ctx: &Ctx, src: &mut Src) -> WorldResult {
    let n = 1 + src.size(if ctx.tier == Tier::Quick { 10 } else { 30 }) as usize;
    let mut state = RefFace::default();
    let mut stream: Vec<u8> = Vec::new();
    let mut expected: Vec<(char, Face)> = Vec::new();
    let mut sequences: Vec<(usize, usize)> = Vec::new();
    let mut shape = Vec::new();
    let mut defaults: Option<bool> = if ctx.avoids("sgr-default-colour-or-reverse") { None } else { Some(false) };
    for _ in 0..n {
        if src.chance(2, 3) {
            let params = 1 + src.draw(4);
            let start = stream.len();
            stream.extend_from_slice(b"\x1b[");
            let mut texts = Vec::new();
            for _ in 0..params {
                texts.push(gen_param(src, &mut state, &mut defaults));
            }
            // an empty parameter list means reset; a single empty parameter is written as nothing
            let joined = texts.join(";");
            stream.extend_from_slice(joined.as_bytes());
            stream.push(b'm');
            sequences.push((start, stream.len()));
            shape.push(format!("CSI {joined} m"));
            src.sig(0x20 + params as u64);
        } else {
            let c = match src.draw(4) {
                0 => 'x',
                1 => 'é',
                2 => '宽',
                _ => 'm',
            };
            let mut buf = [0u8; 4];
            stream.extend_from_slice(c.encode_utf8(&mut buf).as_bytes());
            expected.push((c, state.to_face()));
            shape.push(format!("{c:?} -> {:?}", state));
            src.sig(0x30);
        }
    }
    // make sure that the final state is observed
    stream.push(b'.');
    expected.push(('.', state.to_face()));
    src.log(|| format!("history: {}", shape.join(" | ")));

    let k = if ctx.tier == Tier::Quick { 2 } else { 4 };
    let mut schedules = vec![vec![stream.len()], vec![1; stream.len()]];
    for _ in 0..k {
        schedules.push(cuts(src, stream.len(), true));
    }
    for schedule in schedules.iter() {
        let mut off = 0;
        if schedule.iter().any(|c| {
            off += c;
            sequences.iter().any(|(s, e)| *s < off && off < *e)
        }) {
            src.nontrivial = true;
            src.probe("cut-inside-sgr-sequence");
        }
        let mut target = Recorder::default();
        {
            let mut writer = target.by_ref().tty_writer();
            let mut off = 0;
            for cut in schedule.iter() {
                let chunk = &stream[off..off + cut];
                off += cut;
                writer.write_all(chunk).map_err(|e| Violation::new(P, "C06.writer-error", "writer-error", format!("tty_writer failed: {e}")))?;
            }
        }
        let got: Vec<(char, Face)> = target
            .cells
            .iter()
            .filter_map(|cell| match cell.kind() {
                CellKind::Char(c) => Some((*c, cell.face())),
                _ => None,
            })
            .collect();
        if got != expected {
            let idx = got.iter().zip(expected.iter()).position(|(a, b)| a != b).unwrap_or(got.len().min(expected.len()));
            let signature = match (got.get(idx), expected.get(idx)) {
                (Some((gc, gf)), Some((ec, ef))) if gc == ec => {
                    let mut fields = Vec::new();
                    if gf.fg != ef.fg {
                        fields.push("fg");
                    }
                    if gf.bg != ef.bg {
                        fields.push("bg");
                    }
                    if gf.attrs.underline() != ef.attrs.underline() {
                        fields.push("underline");
                    }
                    for (flag, name) in [(FaceAttrs::BOLD, "bold"), (FaceAttrs::ITALIC, "italic"), (FaceAttrs::BLINK, "blink"), (FaceAttrs::STRIKE, "strike")] {
                        if gf.attrs.contains(flag) != ef.attrs.contains(flag) {
                            fields.push(name);
                        }
                    }
                    if gf.attrs.contains(FaceAttrs::REVERSE) != ef.attrs.contains(FaceAttrs::REVERSE) {
                        fields.push("reverse");
                    }
                    format!("cell-face:{}", fields.join(","))
                }
                _ => "cell-sequence".to_string(),
            };
            let signature = if defaults == Some(true) { format!("{signature}+sgr-default-colour-or-reverse") } else { signature };
            return Err(Violation::new(
                P,
                "C06.sgr-semantics",
                signature,
                format!(
                    "writing {:?} through tty_writer ({} writes): cell {} is {:?}, SGR semantics give {:?}",
                    String::from_utf8_lossy(&stream.iter().flat_map(|b| std::ascii::escape_default(*b)).collect::<Vec<u8>>()),
                    schedule.len(),
                    idx,
                    got.get(idx),
                    expected.get(idx)
                ),
            ));
        }
    }
    Ok(())
}
