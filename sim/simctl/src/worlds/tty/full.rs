//! World `full` (C01): the whole output path in one process.
//!
//! Real: `Terminal::run_render` driving the real `TerminalRenderer`, the real `UnixTerminal`
//! (write queue, poll loop, frame dropping, SIGWINCH handling, capability detection, dispose),
//! the real `TTYEncoder`. Simulated: the kernel tty and the clock of world `tty`, and — new
//! here — a terminal emulator that *interprets the bytes it receives* (UTF-8, CUP, ECH, SGR,
//! ED/EL) onto the reference screen of world `render`. The application is a scripted
//! `run_render` handler; typed keys, waker calls, window-size changes, stalls of the
//! emulator, termination signals and tty failures are placed by the tape while it runs.
//!
//! Oracle: whenever everything the application produced has reached the emulator (write queue
//! empty, kernel buffer empty, parser in ground state) and the application had learnt the
//! current window size before it drew, the emulator's screen must show the last rendered
//! frame, cell for cell, and equal a from-scratch repaint (the comparison of world `render`).
use super::*;
use crate::worlds::render::{check_screen, render_ascii, rgb, snapshot_of, Screen, Snapshot, FACES_POOL};
use crate::worlds::sgr::palette;
use std::sync::atomic::{AtomicU64, Ordering};
use std::sync::Arc;
use surf_n_term::encoder::ColorDepth;
use surf_n_term::{Cell, FaceAttrs, Size, Surface, SurfaceMut, SurfaceOwned, TerminalAction, TerminalCaps, TerminalSize, UnderlineStyle, RGBA};
use unicode_width::UnicodeWidthChar;

pub fn world() -> World {
    World {
        name: "full",
        properties: &["C01", "C16", "C17"],
        run,
        real: &[
            "terminal::Terminal::run_render (frame dropping, resize, error path) on the real terminal object",
            "render::TerminalRenderer",
            "unix::UnixTerminal (capabilities_detect, poll, execute, frames_pending/frames_drop, SIGWINCH handling, dispose)",
            "encoder::TTYEncoder (Face, CursorTo, EraseChars, Char, DecModeSet)",
            "common::IOQueue, decoder::TTYEventDecoder, signal-hook, waker socket pair",
        ],
        stub: &[
            "kernel tty device, select(2) and the clock of world `tty`",
            "terminal emulator that interprets the received bytes onto a screen: UTF-8 text with display widths, CSI H/f (CUP), CSI X (ECH with background colour erase), CSI m (SGR incl. 38/48/58 in both separator forms, underline styles), CSI J/K, cursor movement; answers the capability queries",
            "scripted application (run_render handler), user typing, waker threads, window-size changes, signals",
        ],
        assumptions: &[
            "text-only frames (narrow, two-byte narrow and wide characters, faces with every attribute the encoder knows); images are the subject of worlds render/kitty/sixel",
            "the emulator reports true colour (the encoder's colour quantisation for lesser depths is not re-implemented); a run whose detection did not end with depth TrueColor is not judged",
            "the screen is blank when run_render starts (the renderer is created with clear=false and assumes so)",
            "after a window-size change the emulator shows arbitrary content of the new size; the screen is judged again only once the application has received a Resize event carrying the current size",
            "a frame is judged only if no frames were dropped after it was rendered",
        ],
        rule: "one run = one run_render session on a drawn emulator personality and window size: each handler call draws a text frame and returns Wait/WaitNoFrame/Sleep/Quit or an error while the tape places keys, wakes, size changes, stalls (bursts of frames against a stalled emulator cross the frame-drop threshold), termination signals and tty failures; the screen is compared at every handler call at which all output has been consumed and once more after the session ended and was drained; non-trivial = at least one comparison was made; distinct = distinct hash of (actions, events, kernel decisions)",
        runs: |_, tier| match tier {
            Tier::Quick => 200_000,
            Tier::Thorough => 8_000_000,
        },
        features: &[],
    }
}

// ---------------------------------------------------------------- emulator screen

pub(super) struct VScreen {
    pub screen: Screen,
    utf8: Vec<u8>,
    /// bumped whenever the window changes size
    pub gen: u64,
    /// control sequences with a final byte the emulator does not implement
    pub ignored: u64,
    /// a synchronized update (CSI ? 2026 h … l) is open
    sync_open: bool,
    sync_begins: u64,
    /// first violation of the begin/end alternation
    pub sync_error: Option<String>,
}

fn size_of(ws: Winsize) -> TerminalSize {
    TerminalSize { cells: Size::new(ws.ws_row as usize, ws.ws_col as usize), pixels: Size::new(ws.ws_ypixel as usize, ws.ws_xpixel as usize) }
}

impl VScreen {
    pub fn new(ws: Winsize) -> Self {
        VScreen { screen: Screen::new(size_of(ws), true), utf8: Vec::new(), gen: 0, ignored: 0, sync_open: false, sync_begins: 0, sync_error: None }
    }

    pub fn quiescent(&self) -> bool {
        self.utf8.is_empty()
    }

    pub fn resize(&mut self, ws: Winsize, src: &mut Src) {
        self.screen = Screen::new(size_of(ws), true);
        self.screen.scribble(src);
        self.utf8.clear();
        self.gen += 1;
    }

    /// byte received in ground state
    pub fn ground(&mut self, byte: u8) {
        if byte < 0x20 || byte == 0x7f {
            self.utf8.clear();
            match byte {
                b'\r' => self.screen.cursor.col = 0,
                b'\n' => self.screen.cursor.row = (self.screen.cursor.row + 1).min(self.screen.h.saturating_sub(1)),
                0x08 => self.screen.cursor.col = self.screen.cursor.col.min(self.screen.w.saturating_sub(1)).saturating_sub(1),
                _ => {}
            }
            return;
        }
        self.utf8.push(byte);
        match std::str::from_utf8(&self.utf8) {
            Ok(text) => {
                let ch = text.chars().next().unwrap();
                self.utf8.clear();
                self.screen.execute(&TerminalCommand::Char(ch));
            }
            Err(err) => {
                if err.error_len().is_some() || self.utf8.len() >= 4 {
                    // malformed: shown as a replacement character
                    self.utf8.clear();
                    self.screen.execute(&TerminalCommand::Char('\u{fffd}'));
                }
            }
        }
    }

    fn blank_cell(&self) -> crate::worlds::render::TCell {
        let mut cell = crate::worlds::render::TCell::blank();
        cell.face = Face::default().with_bg(self.screen.face.bg);
        cell
    }

    pub fn csi(&mut self, text: &str, fin: u8) {
        self.utf8.clear();
        let num = |idx: usize, default: usize| -> usize {
            text.split(';').nth(idx).and_then(|p| p.parse::<usize>().ok()).filter(|v| *v != 0).unwrap_or(default)
        };
        let (h, w) = (self.screen.h, self.screen.w);
        match fin {
            b'H' | b'f' => {
                let (row, col) = (num(0, 1), num(1, 1));
                self.screen.execute(&TerminalCommand::CursorTo(Position::new(row - 1, col - 1)));
            }
            b'X' => self.screen.execute(&TerminalCommand::EraseChars(num(0, 1))),
            b'm' => self.sgr(text),
            b'A' => self.screen.cursor.row = self.screen.cursor.row.saturating_sub(num(0, 1)),
            b'B' => self.screen.cursor.row = (self.screen.cursor.row + num(0, 1)).min(h.saturating_sub(1)),
            b'C' => self.screen.cursor.col = (self.screen.cursor.col.min(w.saturating_sub(1)) + num(0, 1)).min(w.saturating_sub(1)),
            b'D' => self.screen.cursor.col = self.screen.cursor.col.min(w.saturating_sub(1)).saturating_sub(num(0, 1)),
            b'J' | b'K' => {
                if h == 0 || w == 0 {
                    return;
                }
                let mode = text.split(';').next().and_then(|p| p.parse::<usize>().ok()).unwrap_or(0);
                let cur = self.screen.cursor;
                let (r0, c0) = (cur.row.min(h - 1), cur.col.min(w - 1));
                let at = r0 * w + c0;
                let range = match (fin, mode) {
                    (b'J', 0) => at..h * w,
                    (b'J', 1) => 0..at + 1,
                    (b'J', _) => 0..h * w,
                    (_, 0) => at..(r0 + 1) * w,
                    (_, 1) => r0 * w..at + 1,
                    _ => r0 * w..(r0 + 1) * w,
                };
                let blank = self.blank_cell();
                for idx in range {
                    self.screen.break_wide(idx / w, idx % w);
                    self.screen.grid[idx] = blank.clone();
                }
            }
            b'h' | b'l' if text.starts_with('?') && text[1..].split(';').any(|m| m == "2026") => {
                // synchronized update: begin and end strictly alternate, a frame is one pair
                let begin = fin == b'h';
                if begin {
                    self.sync_begins += 1;
                }
                if begin == self.sync_open && self.sync_error.is_none() {
                    self.sync_error = Some(if begin {
                        format!("synchronized update #{} begins while the previous one has not ended", self.sync_begins)
                    } else {
                        format!("a synchronized update ends after {} begin marker(s) although none is open: its beginning never arrived", self.sync_begins)
                    });
                }
                self.sync_open = begin;
            }
            // modes, queries, keyboard levels, scroll regions: no effect on the cells
            b'h' | b'l' | b'c' | b't' | b'u' | b'n' | b'p' | b'q' | b'r' => {}
            _ => self.ignored += 1,
        }
    }

    fn sgr(&mut self, text: &str) {
        let items: Vec<Vec<Option<u32>>> = text.split(';').map(|item| item.split(':').map(|p| p.parse::<u32>().ok()).collect()).collect();
        let mut face = self.screen.face;
        let mut i = 0;
        let set_ul = |face: &mut Face, style: UnderlineStyle| {
            let mut attrs = face.attrs;
            for flag in [FaceAttrs::UNDERLINE, FaceAttrs::UNDERLINE_DOUBLE, FaceAttrs::UNDERLINE_CURLY, FaceAttrs::UNDERLINE_DOTTED, FaceAttrs::UNDERLINE_DASHED] {
                attrs = attrs.remove(flag);
            }
            attrs = match style {
                UnderlineStyle::None => attrs,
                UnderlineStyle::Straight => attrs | FaceAttrs::UNDERLINE,
                UnderlineStyle::Double => attrs | FaceAttrs::UNDERLINE_DOUBLE,
                UnderlineStyle::Curly => attrs | FaceAttrs::UNDERLINE_CURLY,
                UnderlineStyle::Dotted => attrs | FaceAttrs::UNDERLINE_DOTTED,
                UnderlineStyle::Dashed => attrs | FaceAttrs::UNDERLINE_DASHED,
            };
            face.attrs = attrs;
        };
        while i < items.len() {
            let item = &items[i];
            let code = item.first().copied().flatten().unwrap_or(0);
            match code {
                0 => face = Face::default(),
                1 => face.attrs = face.attrs | FaceAttrs::BOLD,
                3 => face.attrs = face.attrs | FaceAttrs::ITALIC,
                4 => {
                    let style = match item.get(1).copied().flatten() {
                        None | Some(1) => UnderlineStyle::Straight,
                        Some(0) => UnderlineStyle::None,
                        Some(2) => UnderlineStyle::Double,
                        Some(3) => UnderlineStyle::Curly,
                        Some(4) => UnderlineStyle::Dotted,
                        _ => UnderlineStyle::Dashed,
                    };
                    set_ul(&mut face, style);
                }
                5 => face.attrs = face.attrs | FaceAttrs::BLINK,
                7 => face.attrs = face.attrs | FaceAttrs::REVERSE,
                9 => face.attrs = face.attrs | FaceAttrs::STRIKE,
                21 | 22 => face.attrs = face.attrs.remove(FaceAttrs::BOLD),
                23 => face.attrs = face.attrs.remove(FaceAttrs::ITALIC),
                24 => set_ul(&mut face, UnderlineStyle::None),
                25 => face.attrs = face.attrs.remove(FaceAttrs::BLINK),
                27 => face.attrs = face.attrs.remove(FaceAttrs::REVERSE),
                29 => face.attrs = face.attrs.remove(FaceAttrs::STRIKE),
                30..=37 => face.fg = Some(palette(code - 30)),
                90..=97 => face.fg = Some(palette(code - 90 + 8)),
                40..=47 => face.bg = Some(palette(code - 40)),
                100..=107 => face.bg = Some(palette(code - 100 + 8)),
                39 => face.fg = None,
                49 => face.bg = None,
                38 | 48 | 58 => {
                    let color: Option<RGBA> = if item.len() > 1 {
                        // colon form: 38:2::r:g:b, 38:2:r:g:b, 38:5:n
                        match item[1] {
                            Some(2) if item.len() >= 5 => {
                                let c = &item[item.len() - 3..];
                                Some(RGBA::new(c[0].unwrap_or(0) as u8, c[1].unwrap_or(0) as u8, c[2].unwrap_or(0) as u8, 255))
                            }
                            Some(5) => item.get(2).copied().flatten().filter(|n| *n < 256).map(palette),
                            _ => None,
                        }
                    } else {
                        let get = |k: usize| items.get(i + k).and_then(|it| it.first().copied().flatten());
                        match get(1) {
                            Some(2) => {
                                let c = (get(2).unwrap_or(0), get(3).unwrap_or(0), get(4).unwrap_or(0));
                                i += 4;
                                Some(RGBA::new(c.0 as u8, c.1 as u8, c.2 as u8, 255))
                            }
                            Some(5) => {
                                let n = get(2);
                                i += 2;
                                n.filter(|n| *n < 256).map(palette)
                            }
                            _ => None,
                        }
                    };
                    if let Some(color) = color {
                        match code {
                            38 => face.fg = Some(color),
                            48 => face.bg = Some(color),
                            _ => {} // underline colour is not part of a Face
                        }
                    }
                }
                _ => {}
            }
            i += 1;
        }
        self.screen.face = face;
    }
}

// ---------------------------------------------------------------- application

/// Delegating terminal: run_render runs on it, so that calls of frames_drop can be counted
struct Wrap {
    inner: SystemTerminal,
    drops: Arc<AtomicU64>,
    /// number of execute() calls so far / that number at the time of the last frames_drop()
    execs: Arc<AtomicU64>,
    drop_at_exec: Arc<AtomicU64>,
}

impl Write for Wrap {
    fn write(&mut self, buf: &[u8]) -> std::io::Result<usize> {
        self.inner.write(buf)
    }
    fn flush(&mut self) -> std::io::Result<()> {
        self.inner.flush()
    }
}

impl Terminal for Wrap {
    fn execute(&mut self, cmd: TerminalCommand) -> Result<(), Error> {
        self.execs.fetch_add(1, Ordering::SeqCst);
        self.inner.execute(cmd)
    }
    fn waker(&self) -> TerminalWaker {
        self.inner.waker()
    }
    fn poll(&mut self, timeout: Option<Duration>) -> Result<Option<TerminalEvent>, Error> {
        self.inner.poll(timeout)
    }
    fn dyn_ref(&mut self) -> &mut dyn Terminal {
        self
    }
    fn size(&self) -> Result<TerminalSize, Error> {
        self.inner.size()
    }
    fn position(&mut self) -> Result<Position, Error> {
        self.inner.position()
    }
    fn frames_pending(&self) -> usize {
        self.inner.frames_pending()
    }
    fn frames_drop(&mut self) {
        self.drops.fetch_add(1, Ordering::SeqCst);
        self.drop_at_exec.store(self.execs.load(Ordering::SeqCst), Ordering::SeqCst);
        self.inner.frames_drop()
    }
    fn capabilities(&self) -> &TerminalCaps {
        self.inner.capabilities()
    }
}

enum AppErr {
    Lib(Error),
    Handler,
    Violation,
}

impl From<Error> for AppErr {
    fn from(err: Error) -> Self {
        AppErr::Lib(err)
    }
}

struct Counters {
    drops: Arc<AtomicU64>,
    execs: Arc<AtomicU64>,
    drop_at_exec: Arc<AtomicU64>,
}

struct Last {
    snap: Snapshot,
    size: TerminalSize,
    gen: u64,
    valid: bool,
    checked: bool,
    frame_no: u64,
}

#[derive(Default)]
struct St {
    calls: u64,
    last: Option<Last>,
    /// generation of the emulator window for which the application has seen the size
    synced_gen: Option<u64>,
    drops_seen: u64,
    dropped: bool,
    resized: bool,
    wide: bool,
    decorated: bool,
    checks: u64,
    burst: u32,
    /// typed keys and wake events the handler (or the final drain) has seen
    keys: Vec<char>,
    overtaken: Option<String>,
    wakes_seen: u64,
    last_wake_event_step: u64,
    /// execute() count when the handler returned last
    execs_at_return: u64,
    violation: Option<Violation>,
}

/// where in the session the rare disturbances happen (handler call numbers)
#[derive(Default, Debug)]
struct Plan {
    resize_at: Vec<u64>,
    /// SIGTERM / SIGINT / EIO / hang-up
    fatal_at: Option<u64>,
    /// start of a burst of frames against a stalled emulator
    burst_at: Option<u64>,
}

const EXTRA_FACES: &[fn() -> Face] = &[
    || Face::new(rgb(255, 255, 255), None, FaceAttrs::BOLD | FaceAttrs::ITALIC),
    || Face::new(None, rgb(0, 0, 0), FaceAttrs::BLINK | FaceAttrs::STRIKE),
    || Face::new(rgb(7, 8, 9), rgb(200, 10, 10), FaceAttrs::UNDERLINE_CURLY),
    || Face::new(None, None, FaceAttrs::UNDERLINE_DOUBLE | FaceAttrs::BOLD),
    || Face::new(rgb(1, 2, 3), rgb(250, 250, 0), FaceAttrs::UNDERLINE_DASHED | FaceAttrs::REVERSE | FaceAttrs::STRIKE),
    || Face::new(rgb(128, 128, 128), None, FaceAttrs::UNDERLINE_DOTTED | FaceAttrs::ITALIC | FaceAttrs::BLINK),
];

fn pick_face(src: &mut Src) -> Face {
    let n = (FACES_POOL.len() + EXTRA_FACES.len()) as u32;
    let idx = src.draw(n) as usize;
    if idx < FACES_POOL.len() {
        FACES_POOL[idx]()
    } else {
        EXTRA_FACES[idx - FACES_POOL.len()]()
    }
}

/// text frame: returns (signature, used wide characters, used decorated blanks)
fn draw_text_frame(src: &mut Src, h: usize, w: usize, surf: &mut dyn FnMut(Position, Cell)) -> (u64, bool, bool) {
    let mut sig = 0u64;
    let (mut wide, mut decorated) = (false, false);
    if h == 0 || w == 0 {
        return (sig, wide, decorated);
    }
    let n = src.size((h * w) as u32 + 2);
    for _ in 0..n {
        let pos = Position::new(src.draw(h as u32) as usize, src.draw(w as u32) as usize);
        let face = pick_face(src);
        match src.draw(8) {
            0..=4 => {
                let ch = *src.pick(&['a', ' ', 'b', 'é', ' ', 'x']);
                if ch == ' ' && (face.attrs.underline() != UnderlineStyle::None || face.attrs.contains(FaceAttrs::REVERSE) || face.attrs.contains(FaceAttrs::STRIKE)) {
                    decorated = true;
                }
                surf(pos, Cell::new_char(face, ch));
                sig = sig.wrapping_mul(31).wrapping_add(1 + (ch == ' ') as u64);
            }
            5 | 6 => {
                if pos.col + 1 < w {
                    let ch = *src.pick(&['宽', '🤩']);
                    debug_assert_eq!(ch.width(), Some(2));
                    surf(pos, Cell::new_char(face, ch));
                    wide = true;
                    sig = sig.wrapping_mul(31).wrapping_add(3);
                    if src.chance(1, 3) {
                        let ch = *src.pick(&['s', ' ']);
                        surf(Position::new(pos.row, pos.col + 1), Cell::new_char(face, ch));
                        sig = sig.wrapping_mul(31).wrapping_add(4);
                    }
                } else {
                    surf(pos, Cell::new_char(face, 'w'));
                }
            }
            _ => {
                // a run of equal blanks (EraseChars is used for runs longer than four)
                let len = 1 + src.draw(w as u32) as usize;
                for col in pos.col..(pos.col + len).min(w) {
                    surf(Position::new(pos.row, col), Cell::new_char(face, ' '));
                }
                sig = sig.wrapping_mul(31).wrapping_add(5);
            }
        }
    }
    (sig, wide, decorated)
}

fn features(st: &St, error_path: bool) -> String {
    let mut out = vec!["full-stack"];
    for (on, name) in [(st.decorated, "decorated-blank"), (error_path, "error-path"), (st.dropped, "frames-dropped"), (st.resized, "resized"), (st.wide, "wide-char")] {
        if on {
            out.push(name);
        }
    }
    out.join("+")
}

fn run(ctx: &Ctx, src: &mut Src) -> WorldResult {
    let mut live = Src::replay(Vec::new());
    std::mem::swap(src, &mut live);
    let kernel: K = Rc::new(RefCell::new(new_kernel(live)));
    let result = catch_unwind(AssertUnwindSafe(|| session(ctx, &kernel)));
    rustix::sim::uninstall();
    surf_n_term::common::verif_yield::set(None);
    {
        let mut k = kernel.borrow_mut();
        k.waker = None;
        let steps = k.steps;
        let now = k.now;
        k.src.sim_ns = now;
        k.src.steps += steps;
        std::mem::swap(src, &mut k.src);
    }
    match result {
        Ok(r) => r,
        Err(payload) => resume_unwind(payload),
    }
}

/// everything the application produced has been consumed by the emulator
fn all_consumed(pending: usize, k: &Kernel) -> bool {
    pending == 0 && k.out_buf.is_empty() && matches!(k.vt, VtState::Ground) && k.vscreen.as_ref().is_some_and(|vs| vs.quiescent())
}

fn session(ctx: &Ctx, kernel: &K) -> WorldResult {
    // ---- environment and emulator personality
    {
        let mut k = kernel.borrow_mut();
        std::env::set_var("TERM", "xterm-256color");
        let colorterm = *k.src.pick(&["", "truecolor"]);
        if colorterm.is_empty() {
            std::env::remove_var("COLORTERM");
        } else {
            std::env::set_var("COLORTERM", colorterm);
        }
        k.faults.mangle_reply = false; // window sizes of 2^16 cells are not what this world is about
        k.person.decrqss = true;
        k.person.truecolor = true;
        k.person.kitty = false;
        k.person.sixel = false;
        let rows = 1 + k.src.draw(6) as u16;
        let cols = 1 + k.src.draw(12) as u16;
        let pixels = k.winsize.ws_xpixel != 0;
        k.winsize = Winsize { ws_row: rows, ws_col: cols, ws_xpixel: if pixels { cols * 10 } else { 0 }, ws_ypixel: if pixels { rows * 20 } else { 0 } };
        let info = format!("env TERM=xterm-256color COLORTERM={colorterm} window {}x{} pixels={} personality {:?} out_cap={} drain_chunk={}", rows, cols, pixels, k.person, k.out_cap, k.drain_chunk);
        k.src.log(|| info);
        verif_clock::set(0);
    }
    let file = std::fs::OpenOptions::new().read(true).write(true).open("/dev/null").map_err(|e| violation("C01", "harness", "harness", format!("open /dev/null: {e}")))?;
    let fd: OwnedFd = file.into();
    let raw = fd.as_raw_fd();
    kernel.borrow_mut().tty_fd = raw;
    rustix::sim::install(raw, Box::new(HooksImpl(kernel.clone())));
    install_yield_hook(kernel);
    {
        let mut k = kernel.borrow_mut();
        if k.src.chance(1, 10) {
            let at = k.src.draw(500) as u64 * US;
            let len = (1 + k.src.draw(300) as u64) * MS;
            let now = k.now;
            k.schedule(at, Ev::Stall(now + at + len));
        }
        k.signals_enabled = true;
    }
    ensure_signal_hook_installed();
    let built = guarded(|| SystemTerminal::new_from_fd(fd));
    let term = match built {
        Err(()) => return Err(violation("C01", "C01.full.blocked", "construction-blocked", "terminal construction blocked for ever in select".to_string())),
        Ok(Err(err)) => {
            let mut k = kernel.borrow_mut();
            k.signals_enabled = false;
            k.src.log(|| format!("construction failed: {:?}", err));
            k.src.probe("full-construction-failed");
            return Ok(());
        }
        Ok(Ok(term)) => term,
    };
    let caps = term.capabilities().clone();
    let app_size = term.size().ok();
    {
        let mut k = kernel.borrow_mut();
        let now = k.now;
        k.src.log(|| format!("t={}us constructed: caps={:?} size={:?}", now / US, caps, app_size));
        k.waker = Some(term.waker());
        k.counting_signals = true;
        if caps.depth != ColorDepth::TrueColor {
            // detection was cut short (stall longer than its budget): colours would be quantised
            k.src.probe("full-not-truecolor");
            k.signals_enabled = false;
            drop(k);
            drop(term);
            return Ok(());
        }
        // the application starts on a blank screen (alternate screen / cleared by the shell)
        let ws = k.winsize;
        k.vscreen = Some(VScreen::new(ws));
    }

    // ---- the application
    let drops = Arc::new(AtomicU64::new(0));
    let execs = Arc::new(AtomicU64::new(0));
    let drop_at_exec = Arc::new(AtomicU64::new(0));
    let counters = Counters { drops: drops.clone(), execs: execs.clone(), drop_at_exec: drop_at_exec.clone() };
    let mut wrap = Wrap { inner: term, drops: drops.clone(), execs, drop_at_exec };
    let st = Rc::new(RefCell::new(St { synced_gen: Some(0), ..Default::default() }));
    let (max_calls, long, plan) = {
        let mut k = kernel.borrow_mut();
        let long = k.src.chance(1, 5);
        let n = if long { 48 + k.src.draw(40) as u64 } else { 1 + k.src.draw(10) as u64 };
        let mut plan = Plan::default();
        for _ in 0..k.src.draw(if long { 4 } else { 3 }) {
            plan.resize_at.push(1 + k.src.draw(n as u32) as u64);
        }
        if k.src.chance(1, 4) {
            plan.fatal_at = Some(1 + k.src.draw(n as u32) as u64);
        }
        if long {
            plan.burst_at = Some(1 + k.src.draw((n - 46) as u32) as u64);
        }
        let text = format!("session plan: {} handler calls, {:?}", n, plan);
        k.src.log(|| text);
        (n, long, plan)
    };
    let judge_screen = ctx.prop == "C01";
    let result = guarded(|| wrap_run(&mut wrap, &st, kernel, &counters, max_calls, long, &plan, judge_screen));
    if result.is_err() {
        // a poll with infinite timeout never returned: the judgement of that belongs to world `tty`
        {
            let mut k = kernel.borrow_mut();
            k.src.probe("full-session-blocked");
            k.disposing = true;
        }
        let _ = guarded(move || drop(wrap));
        kernel.borrow_mut().signals_enabled = false;
        return Ok(());
    }
    let outcome = OUTCOME.with(|o| o.borrow_mut().take()).expect("outcome");
    if let Some(v) = st.borrow_mut().violation.take() {
        kernel.borrow_mut().signals_enabled = false;
        return Err(v);
    }
    let (error_path, judge) = match &outcome {
        Ok(()) => (false, true),
        Err(AppErr::Handler) => (false, true),
        Err(AppErr::Violation) => (false, false),
        Err(AppErr::Lib(Error::Quit)) => (true, true),
        Err(AppErr::Lib(_)) => (false, false),
    };
    {
        let mut k = kernel.borrow_mut();
        let now = k.now;
        let text = match &outcome {
            Ok(()) => "Ok(quit)".to_string(),
            Err(AppErr::Handler) => "Err(handler error)".to_string(),
            Err(AppErr::Violation) => "Err(violation)".to_string(),
            Err(AppErr::Lib(e)) => format!("Err({e:?})"),
        };
        k.src.log(|| format!("t={}us app: run_render returned {}", now / US, text));
        k.src.sig_str(&text);
    }

    // ---- drain what is still queued, then the final comparison
    let mut drained = false;
    if judge {
        let mut idle_polls = 0;
        for _ in 0..600 {
            let pending = wrap.inner.frames_pending();
            {
                let k = kernel.borrow();
                // nothing left to arrive either: no key, wake or signal is still scheduled
                let quiet = k.in_queue.is_empty() && k.events.values().all(|ev| !matches!(ev, Ev::Input(..) | Ev::Wake | Ev::Signal(..)));
                if all_consumed(pending, &k) && quiet && idle_polls >= 1 {
                    drained = true;
                    break;
                }
                if k.eio || k.hup || k.dead {
                    break;
                }
            }
            match guarded(|| wrap.inner.poll(Some(Duration::from_millis(20)))) {
                Ok(Ok(event)) => {
                    if event.is_some() {
                        idle_polls = 0;
                        let mut k = kernel.borrow_mut();
                        note_event(&mut st.borrow_mut(), &mut k, &event);
                    } else {
                        idle_polls += 1;
                    }
                }
                Ok(Err(Error::Quit)) => idle_polls = 0,
                _ => break,
            }
        }
    }
    let mut verdict = Ok(());
    if ctx.prop == "C16" {
        // frames reach the tty whole: their begin and end markers alternate whatever was dropped
        let msg = kernel.borrow_mut().vscreen.as_mut().and_then(|vs| vs.sync_error.take());
        kernel.borrow_mut().src.nontrivial = true;
        if let Some(msg) = msg {
            let mut k = kernel.borrow_mut();
            return_violation(kernel, &mut k);
            return Err(violation("C16", "C16.torn-frame", "run-render:unbalanced-synchronized-update", format!("the emulator received the frames of a run_render session torn: {msg}")));
        }
    }
    if ctx.prop == "C17" {
        // (on the error path run_render polls once more and discards what that poll returns: a
        // key lost there belongs to an application that is terminating and is not judged)
        let msg = st.borrow_mut().overtaken.take().filter(|_| !error_path);
        if let Some(msg) = msg {
            let mut k = kernel.borrow_mut();
            return_violation(kernel, &mut k);
            return Err(violation("C17", "C17.event-order", "run-render:wake-overtakes-input", msg));
        }
        let msg = kernel.borrow_mut().ignored_input.take();
        if let Some(msg) = msg {
            let mut k = kernel.borrow_mut();
            return_violation(kernel, &mut k);
            return Err(violation("C17", "C17.starved-input", "run-render:tty-readable-but-not-read", msg));
        }
    }
    if drained && ctx.prop == "C17" && !error_path {
        // everything has been delivered and consumed, nothing is scheduled: what the user typed
        // and the wake requests must have reached the handler (or the polls after it returned)
        let s = st.borrow();
        let mut k = kernel.borrow_mut();
        k.src.nontrivial = true;
        k.src.probe("full-event-delivery-judged");
        let typed: String = k.typed.iter().collect();
        let keys: String = s.keys.iter().collect();
        if typed != keys {
            return_violation(kernel, &mut k);
            return Err(violation(
                "C17",
                "C17.input-order",
                if keys.len() < typed.len() { "run-render:typed-input-lost" } else { "run-render:typed-input-reordered-or-duplicated" },
                format!("during a run_render session the user typed {typed:?} but the key events handed to the handler (and to the polls after it returned) were {keys:?}"),
            ));
        }
        if k.wakes_requested > 0 && (s.wakes_seen == 0 || s.last_wake_event_step < k.last_wake_seq) {
            return_violation(kernel, &mut k);
            return Err(violation(
                "C17",
                "C17.lost-wakeup",
                "run-render:wake-request-without-wake-event",
                format!("{} wake requests during a run_render session, {} Wake events; none after the last request", k.wakes_requested, s.wakes_seen),
            ));
        }
    }
    if drained && ctx.prop == "C01" {
        let mut s_guard = st.borrow_mut();
        let s = &mut *s_guard;
        let drops_now = drops.load(Ordering::SeqCst);
        let mut k = kernel.borrow_mut();
        let vs_gen = k.vscreen.as_ref().unwrap().gen;
        if error_path {
            // the cleanup frame: a blank screen, provided the renderer had the size of the window
            let ws = k.winsize;
            let size = size_of(ws);
            if s.synced_gen == Some(vs_gen) {
                let blank: Snapshot = SurfaceOwned::new(size.cells);
                k.src.probe("full-cleanup-frame-judged");
                k.src.nontrivial = true;
                let feats = features(&s, true);
                verdict = check_screen(&k.vscreen.as_ref().unwrap().screen, &blank, size, "the cleanup frame of the run_render error path was delivered to the emulator", &feats);
            }
        } else if let Some(last) = s.last.as_mut() {
            // a drop after the last handler call spares the last frame only if it came before the frame was rendered
            let spared = drops_now == s.drops_seen || counters.drop_at_exec.load(Ordering::SeqCst) <= s.execs_at_return;
            if last.valid && last.gen == vs_gen && spared {
                k.src.probe("full-final-frame-judged");
                if s.dropped {
                    k.src.probe("full-frame-judged-after-frame-drop");
                }
                k.src.nontrivial = true;
                let (snap, size, no) = (last.snap.clone(), last.size, last.frame_no);
                let feats = features(&s, false);
                verdict = check_screen(&k.vscreen.as_ref().unwrap().screen, &snap, size, &format!("the session ended and frame #{no} (the last one rendered) was delivered to the emulator"), &feats);
            }
        }
        if s.checks > 0 {
            k.src.nontrivial = true;
        }
    }
    {
        let mut k = kernel.borrow_mut();
        let s = st.borrow();
        if s.dropped {
            k.src.probe("full-frames-dropped");
        }
        if s.resized {
            k.src.probe("full-window-resized");
        }
        if let Some(vs) = k.vscreen.as_ref() {
            if vs.ignored > 0 {
                k.src.probe("full-emulator-ignored-a-sequence");
            }
        }
        k.disposing = true;
    }
    let _ = guarded(move || drop(wrap));
    kernel.borrow_mut().signals_enabled = false;
    verdict
}

/// bookkeeping of an event seen by the application
fn note_event(s: &mut St, k: &mut Kernel, event: &Option<TerminalEvent>) {
    match event {
        Some(TerminalEvent::Key(key)) => {
            if let KeyName::Char(c) = key.name {
                if key.mode.is_empty() && typed_char(c) {
                    s.keys.push(c);
                }
            }
        }
        Some(TerminalEvent::Wake) => {
            s.wakes_seen += 1;
            s.last_wake_event_step = k.steps;
            if let Some(msg) = wake_order_check(k, s.keys.len()) {
                s.overtaken.get_or_insert(msg);
            }
        }
        _ => {}
    }
}

/// a violation ends the session early: the terminal is dropped by the caller's scope
fn return_violation(_kernel: &K, k: &mut Kernel) {
    k.signals_enabled = false;
    k.disposing = true;
}

thread_local! {
    static OUTCOME: RefCell<Option<Result<(), AppErr>>> = const { RefCell::new(None) };
}

/// run_render with the scripted handler; the outcome is left in OUTCOME
fn wrap_run(wrap: &mut Wrap, st: &Rc<RefCell<St>>, kernel: &K, counters: &Counters, max_calls: u64, long: bool, plan: &Plan, judge_screen: bool) {
    OUTCOME.with(|o| *o.borrow_mut() = None);
    let result: Result<(), AppErr> = wrap.run_render(|term, event, mut surf| -> Result<TerminalAction<()>, AppErr> {
        // library calls first: they go through the simulated kernel themselves
        let pending = term.frames_pending();
        let tsize = term.size()?;
        let drops_now = counters.drops.load(Ordering::SeqCst);
        let mut s = st.borrow_mut();
        let mut k = kernel.borrow_mut();
        s.calls += 1;
        let calls = s.calls;
        let now = k.now;
        let emu = size_of(k.winsize);
        let vs_gen = k.vscreen.as_ref().unwrap().gen;
        note_event(&mut s, &mut k, &event);
        if let Some(TerminalEvent::Resize(size)) = &event {
            s.resized = true;
            if size.cells == emu.cells {
                s.synced_gen = Some(vs_gen);
                k.src.probe("full-resize-event-with-current-size");
            }
        }
        if drops_now != s.drops_seen {
            s.drops_seen = drops_now;
            s.dropped = true;
            // the frame rendered by the previous call is gone if its commands were queued before
            // the drop; a drop that came first (between handler and rendering) leaves it intact
            let frame_queued_first = counters.drop_at_exec.load(Ordering::SeqCst) > s.execs_at_return;
            if frame_queued_first {
                if let Some(last) = s.last.as_mut() {
                    last.valid = false;
                }
            } else {
                k.src.probe("full-frames-dropped-before-the-frame-was-rendered");
            }
            k.src.log(|| format!("t={}us app: run_render dropped frames ({})", now / US, if frame_queued_first { "the previous frame was already queued" } else { "before the previous frame was rendered" }));
        }
        // ---- oracle: everything consumed -> the screen shows the last rendered frame
        if judge_screen && all_consumed(pending, &k) {
            let feats = features(&s, false);
            if let Some(last) = s.last.as_mut() {
                if last.valid && last.gen == vs_gen && !last.checked {
                    last.checked = true;
                    let res = check_screen(&k.vscreen.as_ref().unwrap().screen, &last.snap, last.size, &format!("frame #{} was delivered to the emulator (judged at handler call #{calls})", last.frame_no), &feats);
                    s.checks += 1;
                    k.src.probe("full-frame-judged-mid-session");
                    if s.dropped {
                        k.src.probe("full-frame-judged-after-frame-drop");
                    }
                    if let Err(v) = res {
                        s.violation = Some(v);
                        return Err(AppErr::Violation);
                    }
                }
            }
        }
        // ---- draw
        let (h, w) = (surf.height(), surf.width());
        let (sig, wide, decorated) = draw_text_frame(&mut k.src, h, w, &mut |pos, cell| {
            if pos.row < h && pos.col < w {
                surf.set(pos, cell);
            }
        });
        s.wide |= wide;
        s.decorated |= decorated;
        k.src.sig(0xF0 ^ sig);
        // ---- the world around the application: disturbances happen at a rate that does not
        // depend on the length of the session (a plan drawn at the start places the rare ones)
        let n_events = k.src.draw(3);
        for _ in 0..n_events {
            let delay = k.src.draw(3000) as u64 * US;
            match k.src.draw(8) {
                0..=2 => {
                    let n = 1 + k.src.draw(3) as usize;
                    let bytes: Vec<u8> = (0..n).map(|i| TYPED[(calls as usize + i) % TYPED.len()]).collect();
                    k.schedule(delay, Ev::Input(bytes, "user"));
                }
                3 | 4 => k.schedule(delay, Ev::Wake),
                5 | 6 => {
                    let len = (1 + k.src.draw(if long { 20 } else { 200 }) as u64) * MS;
                    let now = k.now;
                    k.schedule(delay, Ev::Stall(now + delay + len));
                }
                _ => k.schedule(delay, Ev::Tick),
            }
        }
        if plan.resize_at.contains(&calls) && calls < max_calls {
            let delay = k.src.draw(3000) as u64 * US;
            k.schedule(delay, Ev::Signal(libc::SIGWINCH, true));
        }
        if plan.fatal_at == Some(calls) {
            let delay = k.src.draw(3000) as u64 * US;
            let ev = match k.src.draw(4) {
                0 => Ev::Signal(libc::SIGTERM, false),
                1 => Ev::Signal(libc::SIGINT, false),
                2 => Ev::Eio,
                _ => Ev::Hangup,
            };
            k.schedule(delay, ev);
        }
        if plan.burst_at == Some(calls) {
            // the emulator stops reading while the application keeps producing frames
            let len = (200 + k.src.draw(800) as u64) * MS;
            let now = k.now;
            k.schedule(0, Ev::Stall(now + len));
            s.burst = 34 + k.src.draw(10);
            k.src.fault("frame-burst-against-stalled-emulator");
        }
        // ---- action
        let quit = calls >= max_calls;
        let handler_error = !quit && k.src.chance(1, 60);
        let mut action = if s.burst > 0 {
            // (no WaitNoFrame here: poll(None) does not return while output is pending, so an
            // infinite wait against the stalled emulator would simply end the backlog)
            s.burst -= 1;
            TerminalAction::Sleep(Duration::from_millis(0))
        } else {
            match k.src.draw(8) {
                0 => TerminalAction::WaitNoFrame,
                1 | 2 => TerminalAction::Wait,
                3 => TerminalAction::Sleep(Duration::from_millis(1)),
                4 => TerminalAction::Sleep(Duration::from_millis(30)),
                _ => TerminalAction::Sleep(Duration::from_millis(0)),
            }
        };
        if quit {
            action = TerminalAction::Quit(());
        }
        if matches!(action, TerminalAction::Wait | TerminalAction::WaitNoFrame) {
            // somebody has to end an infinite wait
            let delay = k.src.draw(3000) as u64 * US;
            if k.src.chance(1, 2) {
                k.schedule(delay, Ev::Wake);
            } else {
                k.schedule(delay, Ev::Input(vec![TYPED[calls as usize % TYPED.len()]], "user"));
            }
        }
        let renders = !matches!(action, TerminalAction::WaitNoFrame) && !handler_error;
        let what = match &action {
            TerminalAction::Quit(_) => "Quit".to_string(),
            TerminalAction::Wait => "Wait".to_string(),
            TerminalAction::WaitNoFrame => "WaitNoFrame".to_string(),
            TerminalAction::Sleep(d) => format!("Sleep({d:?})"),
        };
        if renders {
            let snap = snapshot_of(&surf);
            let valid = s.synced_gen == Some(vs_gen) && snap.height() == emu.cells.height && snap.width() == emu.cells.width;
            k.src.log(|| format!("t={}us app: handler#{calls} event={:?} pending={} size={}x{} -> {} frame{}: {}", now / US, event, pending, tsize.cells.height, tsize.cells.width, what, if valid { "" } else { " (size not in sync, not judged)" }, render_ascii(&snap)));
            s.last = Some(Last { snap, size: TerminalSize { cells: tsize.cells, pixels: tsize.pixels }, gen: vs_gen, valid, checked: false, frame_no: calls });
        } else {
            k.src.log(|| format!("t={}us app: handler#{calls} event={:?} pending={} -> {}", now / US, event, pending, if handler_error { "handler error" } else { "WaitNoFrame" }));
        }
        k.src.sig_str(&what);
        s.execs_at_return = counters.execs.load(Ordering::SeqCst);
        if handler_error {
            return Err(AppErr::Handler);
        }
        Ok(action)
    });
    OUTCOME.with(|o| *o.borrow_mut() = Some(result));
}
