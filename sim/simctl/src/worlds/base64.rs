//! World `base64` (C14): real `Base64Encoder<W>` / `Base64Decoder<R>` between a
//! scheduled writer/sink and a scheduled short-read / EINTR reader.
use crate::core::{Ctx, Tier, Violation, World, WorldResult};
use crate::tape::{cuts, Lent, Src};
use std::io::{Read, Write};
use surf_n_term::decoder::Base64Decoder;
use surf_n_term::encoder::Base64Encoder;

const P: &str = "C14";

pub fn world() -> World {
    World {
        name: "base64",
        properties: &["C14"],
        run,
        real: &["encoder::Base64Encoder", "decoder::Base64Decoder"],
        stub: &[
            "byte sink (short writes, Interrupted, hard error at byte k)",
            "byte source (1..n bytes per read, Interrupted, EOF)",
            "caller read loop with drawn destination buffer sizes",
            "reference RFC 4648 codec",
        ],
        assumptions: &[
            "reference codec is a direct transcription of RFC 4648 section 4",
            "callers retry ErrorKind::Interrupted as std::io::Read::read_exact/read_to_end do",
            "after an injected hard sink error nothing is demanded of that encoder",
        ],
        rule: "one run = one byte string (length classes 0..10, 46..50, 62..66, 93..99, random) pushed through the real encoder under a drawn write partition and sink fault schedule, or its reference text / corrupted text pulled through the real decoder under a drawn read-size schedule and destination buffer sizes; non-trivial = a cut fell inside a 3-byte/4-char group or a fault fired; distinct = distinct hash of the (op kind, size class, result kind) sequence",
        runs: |_, tier| match tier {
            Tier::Quick => 1_200_000,
            Tier::Thorough => 40_000_000,
        },
        features: &[],
    }
}

const ALPHABET: &[u8; 64] = b"ABCDEFGHIJKLMNOPQRSTUVWXYZabcdefghijklmnopqrstuvwxyz0123456789+/";

/// RFC 4648 reference encoder
pub fn ref_encode(data: &[u8]) -> Vec<u8> {
    let mut out = Vec::with_capacity(data.len().div_ceil(3) * 4);
    for group in data.chunks(3) {
        let b0 = group[0] as u32;
        let b1 = group.get(1).copied().unwrap_or(0) as u32;
        let b2 = group.get(2).copied().unwrap_or(0) as u32;
        let n = (b0 << 16) | (b1 << 8) | b2;
        out.push(ALPHABET[(n >> 18) as usize & 63]);
        out.push(ALPHABET[(n >> 12) as usize & 63]);
        out.push(if group.len() > 1 { ALPHABET[(n >> 6) as usize & 63] } else { b'=' });
        out.push(if group.len() > 2 { ALPHABET[n as usize & 63] } else { b'=' });
    }
    out
}

fn gen_data(src: &mut Src, tier: Tier) -> Vec<u8> {
    let len = match src.draw(6) {
        0 => src.draw(11),
        1 => 46 + src.draw(5),
        2 => 62 + src.draw(5),
        3 => 93 + src.draw(7),
        4 => src.draw(200),
        _ => src.draw(if tier == Tier::Quick { 700 } else { 4097 }),
    } as usize;
    let mut data = Vec::with_capacity(len);
    if len <= 48 {
        for _ in 0..len {
            data.push(src.draw(256) as u8);
        }
    } else {
        let mut state = src.draw(1 << 16).wrapping_mul(2654435761).wrapping_add(12345);
        for _ in 0..len {
            state = state.wrapping_mul(1664525).wrapping_add(1013904223);
            data.push((state >> 24) as u8);
        }
    }
    data
}

struct Sink<'a> {
    src: &'a mut Src,
    out: Vec<u8>,
    short: bool,
    eintr: bool,
    fail_at: Option<usize>,
    failed: bool,
}

impl Write for Sink<'_> {
    fn write(&mut self, buf: &[u8]) -> std::io::Result<usize> {
        if let Some(at) = self.fail_at {
            if self.out.len() + buf.len() > at {
                self.failed = true;
                self.src.fault("sink-hard-error");
                self.src.sig_str("sink:err");
                return Err(std::io::Error::other("injected sink error"));
            }
        }
        if self.eintr && self.src.chance(1, 5) {
            self.src.fault("sink-eintr");
            self.src.sig_str("sink:eintr");
            return Err(std::io::Error::new(std::io::ErrorKind::Interrupted, "injected EINTR"));
        }
        let mut n = buf.len();
        if self.short && n > 1 && self.src.chance(1, 3) {
            n = 1 + self.src.draw(n as u32 - 1) as usize;
            self.src.fault("sink-short-write");
            self.src.sig_str("sink:short");
        }
        self.out.extend_from_slice(&buf[..n]);
        Ok(n)
    }

    fn flush(&mut self) -> std::io::Result<()> {
        Ok(())
    }
}

struct Source<'a> {
    src: &'a mut Src,
    data: Vec<u8>,
    pos: usize,
    mode: u32,
    eintr: bool,
    fail_at: Option<usize>,
    failed: bool,
    split_group: bool,
}

impl Read for Source<'_> {
    fn read(&mut self, buf: &mut [u8]) -> std::io::Result<usize> {
        if let Some(at) = self.fail_at {
            if self.pos >= at {
                self.failed = true;
                self.src.fault("reader-hard-error");
                return Err(std::io::Error::other("injected reader error"));
            }
        }
        if self.eintr && self.src.chance(1, 6) {
            self.src.fault("reader-eintr");
            self.src.sig_str("rd:eintr");
            return Err(std::io::Error::new(std::io::ErrorKind::Interrupted, "injected EINTR"));
        }
        let rest = self.data.len() - self.pos;
        let want = buf.len().min(rest);
        let n = match self.mode {
            0 => want,
            1 => want.min(1),
            _ => {
                if want > 1 && self.src.chance(1, 2) {
                    1 + self.src.draw(want as u32 - 1) as usize
                } else {
                    want
                }
            }
        };
        if n < want {
            self.src.fault("reader-short-read");
            if (self.pos + n) % 4 != 0 {
                self.split_group = true;
            }
        }
        buf[..n].copy_from_slice(&self.data[self.pos..self.pos + n]);
        self.pos += n;
        self.src.sig(0x7264_0000 + n.min(5) as u64);
        Ok(n)
    }
}

fn run(ctx: &Ctx, src: &mut Src) -> WorldResult {
    let mode = src.draw(3);
    let data = gen_data(src, ctx.tier);
    let text = ref_encode(&data);
    src.log(|| format!("mode={} data.len={} data={:02x?}", mode, data.len(), &data[..data.len().min(24)]));
    match mode {
        0 => run_encode(src, &data, &text),
        1 => run_decode_valid(src, &data, &text),
        _ => run_decode_invalid(src, &data, text),
    }
}

fn run_encode(src: &mut Src, data: &[u8], text: &[u8]) -> WorldResult {
    let parts = cuts(src, data.len(), true);
    let short = src.chance(1, 2);
    let eintr = src.chance(1, 3);
    let fail_at = if src.chance(1, 8) { Some(src.draw(text.len() as u32 + 1) as usize) } else { None };
    let flushes = src.chance(1, 3);
    src.log(|| format!("encode parts={:?} short={} eintr={} fail_at={:?}", parts, short, eintr, fail_at));
    // the sink owns the live source for the duration of the encoding (moved back also on a panic)
    let mut lent = Lent::new(src);
    let sink = Sink { src: &mut lent.live, out: Vec::new(), short, eintr, fail_at, failed: false };
    let mut enc = Base64Encoder::new(sink);
    let mut off = 0;
    let mut error = None;
    let mut inside_group = false;
    for part in parts.iter() {
        let chunk = &data[off..off + part];
        if (off + part) % 3 != 0 && off + part != data.len() {
            inside_group = true;
        }
        // emulate write_all of a caller: Base64Encoder::write consumes everything or fails
        match enc.write(chunk) {
            Ok(n) if n == chunk.len() => {}
            Ok(n) => {
                error = Some(format!("write accepted {} of {} bytes", n, chunk.len()));
                break;
            }
            Err(err) => {
                error = Some(format!("write failed: {err}"));
                break;
            }
        }
        off += part;
        if flushes {
            let _ = enc.flush();
        }
    }
    let result = if error.is_none() { Some(enc.finish()) } else { None };
    let (out, failed, finish_err) = match result {
        Some(Ok(sink)) => (sink.out.clone(), sink.failed, None),
        Some(Err(err)) => (Vec::new(), true, Some(err.to_string())),
        None => (Vec::new(), true, None),
    };
    drop(lent);
    src.sig_str("enc");
    src.sig(parts.len().min(6) as u64);
    if inside_group {
        src.nontrivial = true;
        src.probe("write-cut-inside-3-byte-group");
    }
    if parts.iter().any(|p| *p == 0) {
        src.probe("empty-write");
    }
    let injected = fail_at.is_some() && (failed || error.is_some() || finish_err.is_some());
    if injected {
        src.log(|| "injected hard error: nothing demanded".to_string());
        return Ok(());
    }
    if let Some(err) = error.or(finish_err) {
        return Err(Violation::new(P, "C14.encode-spurious-error", "encode-error-without-hard-fault", format!("encoder failed although the sink never returned a hard error: {err}")));
    }
    if out != text {
        let at = out.iter().zip(text.iter()).position(|(a, b)| a != b).unwrap_or(out.len().min(text.len()));
        return Err(Violation::new(
            P,
            "C14.encode-mismatch",
            format!("len%3={} short={} eintr={}", data.len() % 3, short, eintr),
            format!("encoded text differs from RFC 4648 at offset {} (got {} bytes, want {}): got {:?} want {:?}", at, out.len(), text.len(), String::from_utf8_lossy(&out[at.saturating_sub(4)..(at + 8).min(out.len())]), String::from_utf8_lossy(&text[at.saturating_sub(4)..(at + 8).min(text.len())])),
        ));
    }
    Ok(())
}

const DST_SIZES: &[usize] = &[4096, 1, 2, 3, 5, 63, 64, 65, 200];

/// Pull everything through the decoder the way a std::io::Read user does
fn pull(src: &mut Src, text: Vec<u8>, reader_mode: u32, eintr: bool, fail_at: Option<usize>) -> (Result<Vec<u8>, String>, bool, bool) {
    let dst_mode = src.draw(3);
    let fixed = *src.pick(DST_SIZES);
    let mut lent = Lent::new(src);
    let result = {
        let source = Source { src: &mut lent.live, data: text, pos: 0, mode: reader_mode, eintr, fail_at, failed: false, split_group: false };
        let mut dec = Base64Decoder::new(source);
        let mut out = Vec::new();
        let mut buf = vec![0u8; 4096];
        let mut result = Ok(());
        let mut calls = 0;
        loop {
            calls += 1;
            if calls > 100_000 {
                result = Err("decoder does not terminate (100000 read calls)".to_string());
                break;
            }
            // destination size for this call: uses a private PRNG-free schedule derived from call count
            let size = match dst_mode {
                0 => fixed,
                1 => DST_SIZES[calls % DST_SIZES.len()],
                _ => 1 + (calls * 7) % 67,
            };
            match dec.read(&mut buf[..size]) {
                Ok(0) => break,
                Ok(n) => {
                    if n > size {
                        result = Err(format!("read returned {} for buffer of {}", n, size));
                        break;
                    }
                    out.extend_from_slice(&buf[..n]);
                }
                Err(err) if err.kind() == std::io::ErrorKind::Interrupted => continue,
                Err(err) => {
                    result = Err(err.to_string());
                    break;
                }
            }
        }
        result.map(|_| out)
    };
    drop(lent);
    let hard = src.faults.get("reader-hard-error").copied().unwrap_or(0) > 0;
    let short = src.faults.get("reader-short-read").copied().unwrap_or(0) > 0;
    (result, hard, short)
}

fn run_decode_valid(src: &mut Src, data: &[u8], text: &[u8]) -> WorldResult {
    let reader_mode = src.draw(3);
    let eintr = src.chance(1, 3);
    let fail_at = if src.chance(1, 10) { Some(src.draw(text.len() as u32 + 1) as usize) } else { None };
    src.log(|| format!("decode-valid text.len={} reader_mode={} eintr={} fail_at={:?}", text.len(), reader_mode, eintr, fail_at));
    let (result, hard, short) = pull(src, text.to_vec(), reader_mode, eintr, fail_at);
    src.sig_str("dec");
    if short {
        src.probe("reader-returned-fewer-bytes-than-asked");
    }
    if hard {
        // only demand: no wrong data before the error
        if let Ok(out) = &result {
            if !data.starts_with(out) {
                return Err(Violation::new(P, "C14.decode-wrong-data", "wrong-data-after-reader-error", "decoder returned bytes that are not a prefix of the original after a reader error".to_string()));
            }
        }
        return Ok(());
    }
    match result {
        Ok(out) if out == data => Ok(()),
        Ok(out) => {
            let at = out.iter().zip(data.iter()).position(|(a, b)| a != b).unwrap_or(out.len().min(data.len()));
            Err(Violation::new(
                P,
                "C14.decode-mismatch",
                format!("reader_mode={} short_reads={}", reader_mode, short),
                format!("decoded {} bytes, expected {}, first difference at {}", out.len(), data.len(), at),
            ))
        }
        Err(err) => Err(Violation::new(
            P,
            "C14.decode-spurious-error",
            format!("short_reads={} eintr={}", short, eintr),
            format!("decoding valid RFC 4648 text of {} chars failed: {}", text.len(), err),
        )),
    }
}

fn run_decode_invalid(src: &mut Src, data: &[u8], mut text: Vec<u8>) -> WorldResult {
    // corrupt: truncate to a length that is not a multiple of four, or arbitrary bytes
    let kind = src.draw(4);
    match kind {
        3 => {
            // text over a tiny alphabet, heavy on padding: groups like "====", "A===", "=A=="
            // (uniformly random bytes essentially never produce them)
            let len = src.draw(17) as usize;
            text.clear();
            for _ in 0..len {
                text.push(*src.pick(&[b'=', b'=', b'A', b'/', b'+', b'-', b'_', 0x80u8]));
            }
        }
        0 => {
            // drop 1..3 trailing chars (or add some)
            if text.len() >= 4 {
                let drop = 1 + src.draw(3) as usize;
                text.truncate(text.len() - drop);
            } else {
                let add = 1 + src.draw(3) as usize;
                for _ in 0..add {
                    text.push(ALPHABET[src.draw(64) as usize]);
                }
            }
        }
        1 => {
            // arbitrary bytes
            let len = src.draw(40) as usize;
            text.clear();
            for _ in 0..len {
                text.push(src.draw(256) as u8);
            }
        }
        _ => {
            // flip some bytes, keep length
            let flips = 1 + src.draw(3);
            for _ in 0..flips {
                if !text.is_empty() {
                    let at = src.draw(text.len() as u32) as usize;
                    text[at] = src.draw(256) as u8;
                }
            }
        }
    }
    let reader_mode = src.draw(3);
    let eintr = src.chance(1, 4);
    let len = text.len();
    src.log(|| format!("decode-invalid kind={} text={:?} reader_mode={}", kind, String::from_utf8_lossy(&text), reader_mode));
    let (result, _, _) = pull(src, text, reader_mode, eintr, None);
    src.sig_str("inv");
    src.sig(kind as u64);
    src.nontrivial = true;
    if len % 4 != 0 {
        src.probe("text-length-not-multiple-of-four");
        if let Ok(out) = result {
            return Err(Violation::new(
                P,
                "C14.decode-silent-truncation",
                format!("len%4={}", len % 4),
                format!("text of {} chars (not a multiple of four) decoded to Ok({} bytes) instead of an error; original data {} bytes", len, out.len(), data.len()),
            ));
        }
    }
    Ok(())
}
