//! World `render` (C01): the real `TerminalRenderer` (and the real `Terminal::run_render`
//! loop) against a reference terminal that executes exactly the commands it is given,
//! delivers them late, drops frames, resizes and is re-created.
use crate::core::{Ctx, Tier, Violation, World, WorldResult};
use crate::tape::Src;
use std::cell::RefCell;
use std::collections::VecDeque;
use std::io::Write;
use std::rc::Rc;
use std::time::Duration;
use surf_n_term::render::{CellKind, TerminalRenderer};
use surf_n_term::{
    Cell, Error, Face, FaceAttrs, Glyph, Image, Key, KeyName, Position, Size, Surface, SurfaceMut, SurfaceOwned, Terminal, TerminalAction,
    TerminalCaps, TerminalCommand, TerminalEvent, TerminalSize, TerminalWaker, UnderlineStyle, RGBA,
};
use unicode_width::UnicodeWidthChar;

const P: &str = "C01";

pub fn world() -> World {
    World {
        name: "render",
        properties: &["C01"],
        run,
        real: &[
            "render::TerminalRenderer::{new,clear,surface,frame}",
            "terminal::Terminal::run_render (provided method: frame dropping, resize, error path)",
            "surface::*, render::Cell, image::Image::size_cells, glyph::Glyph::rasterize",
        ],
        stub: &[
            "Terminal implementation: reference terminal (grid of cells, cursor, current face, image placements) with a delivery pipeline (late delivery, frame drop, resize)",
        ],
        assumptions: &[
            "reference terminal semantics: Char advances by display width, writing onto either half of a wide character blanks the other half, EraseChars blanks with the current background only (BCE) and does not move the cursor, CursorTo clamps to the screen",
            "image personalities: layered (kitty: placements above text keyed by content id and position-derived placement id) and cell (sixel: image occupies its cell area, later text destroys fragments, ImageErase is a no-op)",
            "for a blank cell only the background (foreground when reversed), underline and strike are observable",
            "images and glyph cells are only generated when the terminal reports a cell pixel size; zero-width characters and wide characters in the last column are outside the domain",
            "images are compared by content (size + pixels), which is what the kitty handler keys on",
            "a renderer may be replaced by TerminalRenderer::new(term, true) without clear() on the old one (one run in eight while the known finding about it is open): what the old one drew is then 'what the terminal showed before'",
        ],
        rule: "one run = one terminal size, personality and history of ops (Frame, NoFrame, Clear, Recreate with optional resize and garbage, garbage pre-fill) or one scripted run_render session; after every frame whose commands are fully delivered the displayed screen is compared cell for cell with the drawn surface and with a from-scratch render of the same surface on a blank terminal; non-trivial = at least two frames or a clear/recreate/drop/resize happened; distinct = distinct hash of (op kinds, cell kinds drawn, delivery decisions)",
        runs: |_, tier| match tier {
            Tier::Quick => 1_500_000,
            Tier::Thorough => 30_000_000,
        },
        features: &["wide-char", "image", "decorated-blank", "sentinel-face", "image-overlap", "shadow-draw", "drop-with-image", "bare-recreate"],
    }
}

// ---------------------------------------------------------------- reference terminal

#[derive(Clone, Debug, PartialEq)]
pub(crate) struct TCell {
    pub(crate) ch: char,
    pub(crate) face: Face,
    /// right half of a wide character
    pub(crate) cont: bool,
    /// fragment of an image (cell personality): content, dy, dx
    pub(crate) frag: Option<(u64, usize, usize)>,
}

impl TCell {
    pub(crate) fn blank() -> Self {
        TCell { ch: ' ', face: Face::default(), cont: false, frag: None }
    }
}

#[derive(Clone, Debug, PartialEq)]
pub(crate) struct Placement {
    content: u64,
    id: Position,
    at: Position,
    size: Size,
}

#[derive(Clone)]
pub(crate) struct Screen {
    pub(crate) h: usize,
    pub(crate) w: usize,
    pub(crate) ppc: Size,
    pub(crate) grid: Vec<TCell>,
    pub(crate) cursor: Position,
    pub(crate) face: Face,
    pub(crate) layered: bool,
    pub(crate) placements: Vec<Placement>,
}

#[derive(Clone, Debug, PartialEq)]
pub(crate) enum Look {
    /// blank: effective background (fg when reversed), underline, strike
    Blank { reversed: bool, color: Option<RGBA>, underline: UnderlineStyle, strike: bool },
    Full(Face),
}

#[derive(Clone, Debug, PartialEq)]
pub(crate) enum Disp {
    Text(char, Look),
    WideRight(char, Look),
    Img(u64, usize, usize),
    /// fragment of a placement above the text layer, and what the text layer holds under it
    /// (it shows through transparent pixels: a from-scratch repaint erases the area with the
    /// image cell's face before placing the image)
    ImgOver(u64, usize, usize, Box<Disp>),
    Multi,
}

fn look(ch: char, face: Face) -> Look {
    if ch == ' ' {
        let reversed = face.attrs.contains(FaceAttrs::REVERSE);
        Look::Blank {
            reversed,
            color: if reversed { face.fg } else { face.bg },
            underline: face.attrs.underline(),
            strike: face.attrs.contains(FaceAttrs::STRIKE),
        }
    } else {
        Look::Full(face)
    }
}

impl Screen {
    pub(crate) fn new(size: TerminalSize, layered: bool) -> Self {
        let h = size.cells.height;
        let w = size.cells.width;
        Screen {
            h,
            w,
            ppc: size.pixels_per_cell(),
            grid: vec![TCell::blank(); h * w],
            cursor: Position::origin(),
            face: Face::default(),
            layered,
            placements: Vec::new(),
        }
    }

    pub(crate) fn break_wide(&mut self, r: usize, c: usize) {
        let idx = r * self.w + c;
        if self.grid[idx].cont {
            // orphaned left half
            if c > 0 {
                let left = &mut self.grid[idx - 1];
                left.ch = ' ';
            }
            self.grid[idx].cont = false;
            self.grid[idx].ch = ' ';
        } else if c + 1 < self.w && self.grid[idx + 1].cont {
            let right = &mut self.grid[idx + 1];
            right.cont = false;
            right.ch = ' ';
        }
    }

    fn put(&mut self, ch: char) {
        let width = ch.width().unwrap_or(0);
        if width == 0 || self.h == 0 || self.w == 0 {
            return;
        }
        if self.cursor.col >= self.w {
            // pending wrap
            self.cursor.col = 0;
            self.cursor.row += 1;
        }
        if self.cursor.row >= self.h {
            return;
        }
        let (r, c) = (self.cursor.row, self.cursor.col);
        if width == 2 && c + 1 >= self.w {
            // does not fit: outside the domain, terminals wrap; keep the model total
            self.cursor.col = self.w;
            return;
        }
        self.break_wide(r, c);
        let face = self.face;
        self.grid[r * self.w + c] = TCell { ch, face, cont: false, frag: None };
        if width == 2 {
            self.break_wide(r, c + 1);
            self.grid[r * self.w + c + 1] = TCell { ch, face, cont: true, frag: None };
        }
        self.cursor.col += width;
    }

    fn erase_chars(&mut self, n: usize) {
        if self.cursor.row >= self.h {
            return;
        }
        let r = self.cursor.row;
        // (with a wrap pending after a character in the last column the cursor is still ON the
        // last column for everything but the next printable character)
        let start = self.cursor.col.min(self.w.saturating_sub(1));
        let end = start.saturating_add(n.max(1)).min(self.w);
        let face = Face::default().with_bg(self.face.bg);
        for c in start..end {
            self.break_wide(r, c);
            self.grid[r * self.w + c] = TCell { ch: ' ', face, cont: false, frag: None };
        }
    }

    pub(crate) fn execute(&mut self, cmd: &TerminalCommand) {
        match cmd {
            TerminalCommand::Char(c) => self.put(*c),
            TerminalCommand::EraseChars(n) => self.erase_chars(*n),
            TerminalCommand::CursorTo(pos) => {
                self.cursor = Position::new(pos.row.min(self.h.saturating_sub(1)), pos.col.min(self.w.saturating_sub(1)));
            }
            TerminalCommand::Face(face) => self.face = *face,
            TerminalCommand::Image(img, pos) => {
                let content = img.hash();
                let size = img.size_cells(self.ppc);
                if self.layered {
                    self.placements.retain(|p| !(p.content == content && p.id == *pos));
                    self.placements.push(Placement { content, id: *pos, at: self.cursor, size });
                } else {
                    for dy in 0..size.height {
                        for dx in 0..size.width {
                            let (r, c) = (self.cursor.row + dy, self.cursor.col + dx);
                            if r < self.h && c < self.w {
                                self.break_wide(r, c);
                                let face = self.grid[r * self.w + c].face;
                                self.grid[r * self.w + c] = TCell { ch: ' ', face, cont: false, frag: Some((content, dy, dx)) };
                            }
                        }
                    }
                }
            }
            TerminalCommand::ImageErase(img, pos) => {
                if self.layered {
                    let content = img.hash();
                    match pos {
                        Some(pos) => self.placements.retain(|p| !(p.content == content && p.id == *pos)),
                        None => self.placements.retain(|p| p.content != content),
                    }
                }
            }
            _ => {}
        }
    }

    pub(crate) fn display(&self) -> Vec<Disp> {
        let mut out: Vec<Disp> = self
            .grid
            .iter()
            .map(|cell| match cell.frag {
                Some((content, dy, dx)) => Disp::Img(content, dy, dx),
                None if cell.cont => Disp::WideRight(cell.ch, Look::Full(cell.face)),
                None => Disp::Text(cell.ch, look(cell.ch, cell.face)),
            })
            .collect();
        for p in self.placements.iter() {
            for dy in 0..p.size.height {
                for dx in 0..p.size.width {
                    let (r, c) = (p.at.row + dy, p.at.col + dx);
                    if r < self.h && c < self.w {
                        let slot = &mut out[r * self.w + c];
                        let under = std::mem::replace(slot, Disp::Multi);
                        *slot = match under {
                            Disp::Img(..) | Disp::ImgOver(..) | Disp::Multi => Disp::Multi,
                            under => Disp::ImgOver(p.content, dy, dx, Box::new(under)),
                        };
                    }
                }
            }
        }
        out
    }

    pub(crate) fn scribble(&mut self, src: &mut Src) {
        // arbitrary text left on the screen (shell output, reflow after resize, ...)
        let n = src.draw((self.h * self.w) as u32 + 1);
        for _ in 0..n {
            if self.h == 0 || self.w == 0 {
                break;
            }
            let r = src.draw(self.h as u32) as usize;
            let c = src.draw(self.w as u32) as usize;
            self.break_wide(r, c);
            let face = FACES_POOL[src.draw(FACES_POOL.len() as u32) as usize]();
            self.grid[r * self.w + c] = TCell { ch: *src.pick(&['#', 'z', '$', ' ']), face, cont: false, frag: None };
        }
        self.cursor = Position::new(src.draw(self.h.max(1) as u32) as usize, src.draw(self.w.max(1) as u32) as usize);
        self.face = FACES_POOL[src.draw(FACES_POOL.len() as u32) as usize]();
    }
}

pub(crate) fn rgb(r: u8, g: u8, b: u8) -> Option<RGBA> {
    Some(RGBA::new(r, g, b, 255))
}

pub(crate) const FACES_POOL: &[fn() -> Face] = &[
    Face::default,
    || Face::default().with_bg(rgb(200, 10, 10)),
    || Face::new(rgb(10, 200, 10), rgb(10, 10, 200), FaceAttrs::EMPTY),
    || Face::new(None, None, FaceAttrs::UNDERLINE),
    || Face::new(rgb(250, 250, 0), None, FaceAttrs::REVERSE),
    || Face::new(None, rgb(1, 2, 3), FaceAttrs::EMPTY),
];

// ---------------------------------------------------------------- terminal stub

struct Shared {
    screen: Screen,
    /// chunks of commands not yet delivered to the screen
    pending: VecDeque<Vec<TerminalCommand>>,
    /// number of the frame (handler call that asked for a frame) each pending chunk belongs to
    pending_frame: VecDeque<u64>,
    /// number of the last frame the application asked to be rendered
    frame_no: u64,
    /// frame number of the last chunk that reached the screen
    delivered_frame: u64,
    current: Vec<TerminalCommand>,
    size: TerminalSize,
    commands: u64,
    fail_execute_in: Option<u64>,
    /// command log of the session (only kept when tracing)
    log: Option<Vec<String>>,
    /// frames_drop was called with a backlog
    dropped: bool,
    /// number of commands executed when frames_drop was called last
    dropped_at_command: u64,
    polls: u64,
    dropped_at_poll: u64,
    /// surface of the last frame the application asked to be rendered (run_render sessions)
    last_frame: Option<(Snapshot, TerminalSize)>,
    /// value of `commands` when the application drew `last_frame`
    frame_set_at_command: u64,
    /// features string for signatures, maintained by the session
    features: String,
    /// first violation seen while checking fully delivered frames inside poll
    violation: Option<Violation>,
    frames_checked: u64,
}

struct StubTerm {
    shared: Rc<RefCell<Shared>>,
    caps: TerminalCaps,
    /// scripted poll results for run_render sessions
    script: Rc<RefCell<VecDeque<PollStep>>>,
    drop_all: bool,
}

// the trait requires Send; the stub never leaves its thread
unsafe impl Send for StubTerm {}

#[derive(Clone, Debug)]
enum PollStep {
    /// deliver up to n chunks, then return event
    Event(usize, Option<TerminalEvent>),
    Resize(usize, TerminalSize),
    Fail,
}

impl Write for StubTerm {
    fn write(&mut self, buf: &[u8]) -> std::io::Result<usize> {
        Ok(buf.len())
    }

    fn flush(&mut self) -> std::io::Result<()> {
        Ok(())
    }
}

impl StubTerm {
    fn deliver(&self, n: usize) {
        let mut shared = self.shared.borrow_mut();
        for _ in 0..n {
            let Some(chunk) = shared.pending.pop_front() else { break };
            if let Some(no) = shared.pending_frame.pop_front() {
                // empty chunks (a poll that flushed nothing) carry no frame
                if !chunk.is_empty() {
                    shared.delivered_frame = no;
                }
            }
            if let Some(log) = shared.log.as_mut() {
                log.push(format!("  delivered chunk of {} commands", chunk.len()));
            }
            for cmd in chunk.iter() {
                shared.screen.execute(cmd);
            }
        }
    }

    fn close_chunk(&self) {
        let mut shared = self.shared.borrow_mut();
        // like UnixTerminal: every poll flushes, and a flush on a non-empty queue opens another
        // (possibly empty) chunk, so the backlog grows with every poll while the peer is slow
        if !shared.current.is_empty() || !shared.pending.is_empty() {
            let chunk = std::mem::take(&mut shared.current);
            if let Some(log) = shared.log.as_mut() {
                log.push(strip_ansi(format!("  chunk closed: {:?}", chunk)));
            }
            shared.pending.push_back(chunk);
            let no = shared.frame_no;
            shared.pending_frame.push_back(no);
        }
    }

    /// every queued frame has reached the screen: it must show the last rendered surface
    fn check_delivered(&self) {
        let (screen, frame, features) = {
            let shared = self.shared.borrow();
            if !shared.pending.is_empty() || !shared.current.is_empty() || shared.violation.is_some() {
                return;
            }
            let Some((snap, size)) = shared.last_frame.as_ref() else { return };
            if shared.delivered_frame != shared.frame_no {
                // the frame the application drew last never reached the screen (dropped)
                return;
            }
            if shared.screen.h != size.cells.height || shared.screen.w != size.cells.width || *size != shared.size {
                return;
            }
            (shared.screen.clone(), (snap.clone(), *size), shared.features.clone())
        };
        let context = if self.shared.borrow().dropped { "a fully delivered frame of a run_render session that dropped frames" } else { "a fully delivered frame of a run_render session" };
        let result = check_screen(&screen, &frame.0, frame.1, context, &features);
        let mut shared = self.shared.borrow_mut();
        shared.frames_checked += 1;
        if let Err(violation) = result {
            shared.violation = Some(violation);
        }
    }

    fn deliver_all(&self) {
        self.close_chunk();
        self.deliver(usize::MAX);
    }
}

impl Terminal for StubTerm {
    fn execute(&mut self, cmd: TerminalCommand) -> Result<(), Error> {
        let mut shared = self.shared.borrow_mut();
        shared.commands += 1;
        if let Some(at) = shared.fail_execute_in {
            if shared.commands >= at {
                shared.fail_execute_in = None;
                return Err(Error::IOError(std::io::Error::other("injected execute failure")));
            }
        }
        shared.current.push(cmd);
        Ok(())
    }

    fn waker(&self) -> TerminalWaker {
        TerminalWaker::new(|| Ok(()))
    }

    fn poll(&mut self, _timeout: Option<Duration>) -> Result<Option<TerminalEvent>, Error> {
        self.close_chunk();
        self.shared.borrow_mut().polls += 1;
        let step = self.script.borrow_mut().pop_front();
        match step {
            None => {
                self.deliver(usize::MAX);
                self.check_delivered();
                Ok(None)
            }
            Some(PollStep::Fail) => {
                // from here on run_render is on its error path: the cleanup frame replaces the last one
                self.shared.borrow_mut().last_frame = None;
                Err(Error::Quit)
            }
            Some(PollStep::Event(n, event)) => {
                self.deliver(n);
                self.check_delivered();
                Ok(event)
            }
            Some(PollStep::Resize(n, size)) => {
                self.deliver(n);
                let mut shared = self.shared.borrow_mut();
                shared.size = size;
                // what the window shows after a resize is arbitrary until the next frame is rendered
                shared.last_frame = None;
                // the window changed: a new grid; layered placements and the current face survive
                let old = shared.screen.clone();
                shared.screen = Screen::new(size, old.layered);
                shared.screen.face = old.face;
                shared.screen.placements = old.placements;
                for p in shared.screen.placements.iter_mut() {
                    p.size = Size::new(p.size.height, p.size.width);
                }
                Ok(Some(TerminalEvent::Resize(size)))
            }
        }
    }

    fn dyn_ref(&mut self) -> &mut dyn Terminal {
        self
    }

    fn size(&self) -> Result<TerminalSize, Error> {
        Ok(self.shared.borrow().size)
    }

    fn position(&mut self) -> Result<Position, Error> {
        Ok(Position::origin())
    }

    fn frames_pending(&self) -> usize {
        let shared = self.shared.borrow();
        shared.pending.len() + (!shared.current.is_empty()) as usize
    }

    fn frames_drop(&mut self) {
        let mut shared = self.shared.borrow_mut();
        shared.current.clear();
        let pending = shared.pending.len();
        shared.dropped = true;
        shared.dropped_at_command = shared.commands;
        shared.dropped_at_poll = shared.polls;
        if shared.commands > shared.frame_set_at_command {
            // the commands of the last drawn frame were queued before this drop: from now on
            // (the caller clears the renderer, which erases images right away) the screen is
            // not that frame any more, and nothing says it should be until a frame is rendered.
            // A drop that comes before the frame's commands leaves the frame to be judged.
            shared.last_frame = None;
        }
        if let Some(log) = shared.log.as_mut() {
            log.push(format!("  frames_drop: {} pending chunks", pending));
        }
        if self.drop_all {
            shared.pending.clear();
            shared.pending_frame.clear();
        } else {
            // all but the one in flight (what UnixTerminal does)
            shared.pending.truncate(1);
            shared.pending_frame.truncate(1);
        }
    }

    fn capabilities(&self) -> &TerminalCaps {
        &self.caps
    }
}

// ---------------------------------------------------------------- workload

struct Pools {
    images: Vec<Image>,
    glyphs: Vec<Glyph>,
    chars_wide: bool,
    images_on: bool,
    overlap: bool,
    shadow_draw: bool,
    decorated: bool,
    sentinel: bool,
}

fn make_image(h: usize, w: usize, seed: u8) -> Image {
    let surf = SurfaceOwned::new_with(Size::new(h, w), |pos| RGBA::new(seed, (pos.row * 7) as u8, (pos.col * 13) as u8, 255));
    Image::from(surf)
}

fn make_glyph(rows: usize, cols: usize) -> Glyph {
    let json = format!(r#"{{"view_box":[0,0,24,24],"size":[{rows},{cols}],"path":"M2,2L22,2L22,22L2,22Z"}}"#);
    serde_json::from_str(&json).expect("glyph")
}

/// surface snapshot: what the application drew for this frame
pub(crate) type Snapshot = SurfaceOwned<Cell>;

fn draw_frame(src: &mut Src, pools: &Pools, size: TerminalSize, prev: Option<&Snapshot>, surf: &mut dyn FnMut(Position, Cell)) -> u64 {
    let h = size.cells.height;
    let w = size.cells.width;
    let mut sig = 0u64;
    if h == 0 || w == 0 {
        return sig;
    }
    // (one value more than the largest cell count: "the application draws what it drew last
    // time" - the same view again after a clear(), a dropped frame or an event that changed
    // nothing; added last so that older tapes read as before)
    let n = src.size((h * w) as u32 + 3);
    // (runs with overlapping pictures - one in thirty-two while the findings about them are open -
    // repeat a frame much more often: what is kept under or inside another picture is their subject)
    if n == (h * w) as u32 + 3 || (pools.overlap && prev.is_some() && src.chance(1, 3)) {
        src.probe("same-frame-drawn-again");
        if let Some(prev) = prev {
            if prev.height() == h && prev.width() == w {
                for r in 0..h {
                    for c in 0..w {
                        let pos = Position::new(r, c);
                        let cell = prev.get(pos).unwrap().clone();
                        // (pictures only where this generator draws them at all: the window's
                        // pixel size is known and the run uses pictures)
                        if matches!(cell.kind(), CellKind::Char(_)) || (pools.images_on && !size.pixels_per_cell().is_empty()) {
                            surf(pos, cell);
                        }
                    }
                }
            }
        }
        return 0x5AFE;
    }
    let ppc = size.pixels_per_cell();
    let mut occupied: Vec<(Position, Size)> = Vec::new();
    for _ in 0..n {
        let pos = Position::new(src.draw(h as u32) as usize, src.draw(w as u32) as usize);
        let mut face_idx = src.draw(FACES_POOL.len() as u32) as usize;
        if (face_idx == 3 || face_idx == 4) && !pools.decorated {
            face_idx = 1;
        }
        if face_idx == 5 && !pools.sentinel {
            face_idx = 2;
        }
        let face = FACES_POOL[face_idx]();
        let kind = src.draw(8);
        match kind {
            0..=3 => {
                let ch = *src.pick(&['a', ' ', 'b', 'x']);
                surf(pos, Cell::new_char(face, ch));
                sig = sig.wrapping_mul(31).wrapping_add(1 + (ch == ' ') as u64);
            }
            4 | 5 => {
                if pools.chars_wide && pos.col + 1 < w {
                    let ch = *src.pick(&['宽', '🤩']);
                    surf(pos, Cell::new_char(face, ch));
                    sig = sig.wrapping_mul(31).wrapping_add(3);
                    if pools.shadow_draw && src.chance(1, 2) {
                        // draw into the shadow cell as well
                        let ch = *src.pick(&['s', ' ']);
                        surf(Position::new(pos.row, pos.col + 1), Cell::new_char(face, ch));
                        sig = sig.wrapping_mul(31).wrapping_add(4);
                    }
                } else {
                    surf(pos, Cell::new_char(face, 'w'));
                }
            }
            6 => {
                if pools.images_on && !ppc.is_empty() {
                    let img = pools.images[src.draw(pools.images.len() as u32) as usize].clone();
                    let area = img.size_cells(ppc);
                    let overlaps = occupied.iter().any(|(p, s)| pos.row < p.row + s.height && p.row < pos.row + area.height && pos.col < p.col + s.width && p.col < pos.col + area.width);
                    if !overlaps || pools.overlap {
                        occupied.push((pos, area));
                        surf(pos, Cell::new_image(img).with_face(face));
                        sig = sig.wrapping_mul(31).wrapping_add(5);
                        if pools.overlap && area.height * area.width > 1 && src.chance(1, 2) {
                            // a second picture anchored inside the area of this one (random
                            // positions meet that way too seldom)
                            let inner = Position::new(pos.row + src.draw(area.height as u32) as usize, pos.col + src.draw(area.width as u32) as usize);
                            if inner != pos && inner.row < h && inner.col < w {
                                let img = pools.images[src.draw(pools.images.len() as u32) as usize].clone();
                                occupied.push((inner, img.size_cells(ppc)));
                                surf(inner, Cell::new_image(img).with_face(face));
                                src.probe("picture-anchored-inside-another");
                                sig = sig.wrapping_mul(31).wrapping_add(7);
                            }
                        }
                    }
                }
            }
            _ => {
                if pools.images_on && !ppc.is_empty() {
                    let glyph = pools.glyphs[src.draw(pools.glyphs.len() as u32) as usize].clone();
                    let area = glyph.size();
                    let overlaps = occupied.iter().any(|(p, s)| pos.row < p.row + s.height && p.row < pos.row + area.height && pos.col < p.col + s.width && p.col < pos.col + area.width);
                    if !overlaps || pools.overlap {
                        occupied.push((pos, area));
                        surf(pos, Cell::new_glyph(face, glyph));
                        sig = sig.wrapping_mul(31).wrapping_add(6);
                    }
                }
            }
        }
    }
    sig
}

/// What a correct terminal must show for this surface wherever that is unambiguous:
/// `None` for cells whose appearance depends on shadows or image areas.
fn direct_expectation(snapshot: &Snapshot, size: TerminalSize) -> Vec<Option<Disp>> {
    let h = snapshot.height();
    let w = snapshot.width();
    let ppc = size.pixels_per_cell();
    let mut undecided = vec![false; h * w];
    // areas of images / glyphs and shadows of wide characters
    for r in 0..h {
        for c in 0..w {
            let cell = snapshot.get(Position::new(r, c)).unwrap();
            match cell.kind() {
                CellKind::Char(ch) => {
                    if ch.width().unwrap_or(0) == 2 {
                        undecided[r * w + c] = true;
                        if c + 1 < w {
                            undecided[r * w + c + 1] = true;
                        }
                    }
                    if ch.width().unwrap_or(0) == 0 {
                        undecided[r * w + c] = true;
                    }
                }
                CellKind::Image(img) => {
                    let area = img.size_cells(ppc);
                    for dy in 0..area.height.max(1) {
                        for dx in 0..area.width.max(1) {
                            if r + dy < h && c + dx < w {
                                undecided[(r + dy) * w + c + dx] = true;
                            }
                        }
                    }
                }
                CellKind::Glyph(glyph) => {
                    let area = glyph.size();
                    for dy in 0..area.height.max(1) {
                        for dx in 0..area.width.max(1) {
                            if r + dy < h && c + dx < w {
                                undecided[(r + dy) * w + c + dx] = true;
                            }
                        }
                    }
                }
            }
        }
    }
    let mut out = vec![None; h * w];
    for r in 0..h {
        for c in 0..w {
            if undecided[r * w + c] {
                continue;
            }
            let cell = snapshot.get(Position::new(r, c)).unwrap();
            if let CellKind::Char(ch) = cell.kind() {
                out[r * w + c] = Some(Disp::Text(*ch, look(*ch, cell.face())));
            }
        }
    }
    out
}

/// Debug output of colours contains SGR sequences (they render as colour swatches): strip them
fn strip_ansi(text: String) -> String {
    let mut out = String::with_capacity(text.len());
    let mut chars = text.chars();
    while let Some(c) = chars.next() {
        if c == '\x1b' {
            for d in chars.by_ref() {
                if d == 'm' {
                    break;
                }
            }
        } else {
            out.push(c);
        }
    }
    out
}

fn describe(disp: &Disp) -> String {
    strip_ansi(format!("{:?}", disp))
}

/// Compare what the screen shows with the drawn surface (direct) and with a from-scratch
/// render of the same surface on a blank terminal of the same personality.
pub(crate) fn check_screen(screen: &Screen, snapshot: &Snapshot, size: TerminalSize, context: &str, features: &str) -> WorldResult {
    let shown = screen.display();
    let w = screen.w;
    // ---- direct
    let expect = direct_expectation(snapshot, size);
    for (idx, want) in expect.iter().enumerate() {
        if let Some(want) = want {
            if shown[idx] != *want {
                let kind = match (&shown[idx], want) {
                    (Disp::Text(a, _), Disp::Text(b, _)) if a != b => "C01.direct.char",
                    (Disp::Text(..), Disp::Text(..)) => "C01.direct.face",
                    _ => "C01.direct.cell",
                };
                return Err(Violation::new(
                    P,
                    kind,
                    features.to_string(),
                    format!("after {context}: cell (row {}, col {}) shows {} but the surface has {}", idx / w.max(1), idx % w.max(1), describe(&shown[idx]), describe(want)),
                ));
            }
        }
    }
    // ---- from scratch on a blank terminal
    let shared = Rc::new(RefCell::new(Shared {
        screen: Screen::new(size, screen.layered),
        pending: VecDeque::new(),
        pending_frame: VecDeque::new(),
        frame_no: 0,
        delivered_frame: 0,
        current: Vec::new(),
        size,
        commands: 0,
        fail_execute_in: None,
        log: None,
        dropped: false,
        dropped_at_command: 0,
        polls: 0,
        dropped_at_poll: 0,
        last_frame: None,
        frame_set_at_command: 0,
        features: String::new(),
        violation: None,
        frames_checked: 0,
    }));
    let mut term = StubTerm { shared: shared.clone(), caps: TerminalCaps::default(), script: Rc::new(RefCell::new(VecDeque::new())), drop_all: true };
    let mut renderer = TerminalRenderer::new(&mut term, true).map_err(|e| Violation::new(P, "C01.error", "scratch-new", format!("{e:?}")))?;
    {
        let mut surf = renderer.surface();
        for r in 0..snapshot.height() {
            for c in 0..snapshot.width() {
                let pos = Position::new(r, c);
                surf.set(pos, snapshot.get(pos).unwrap().clone());
            }
        }
    }
    renderer.frame(&mut term).map_err(|e| Violation::new(P, "C01.error", "scratch-frame", format!("{e:?}")))?;
    term.deliver_all();
    let scratch = shared.borrow().screen.display();
    if screen.layered {
        // the placements themselves (which picture, where, how large), whatever lies under or
        // over them: where two pictures overlap the per-cell view only says "several", so a
        // picture missing under another one would not show in it
        let list = |s: &Screen| {
            let mut l: Vec<(u64, usize, usize, usize, usize)> =
                s.placements.iter().filter(|p| p.at.row < s.h && p.at.col < s.w).map(|p| (p.content, p.at.row, p.at.col, p.size.height, p.size.width)).collect();
            l.sort();
            l
        };
        let (have, want) = (list(screen), list(&shared.borrow().screen));
        if have != want {
            return Err(Violation::new(
                P,
                "C01.placements",
                features.to_string(),
                format!(
                    "after {context}: the terminal holds the image placements {:?} (content, row, col, height, width) but repainting the same surface from scratch on a blank terminal gives {:?}",
                    have, want
                ),
            ));
        }
    }
    for (idx, (got, want)) in shown.iter().zip(scratch.iter()).enumerate() {
        if got != want {
            return Err(Violation::new(
                P,
                "C01.vs-scratch",
                features.to_string(),
                format!(
                    "after {context}: cell (row {}, col {}) shows {} but repainting the same surface from scratch on a blank terminal shows {}",
                    idx / w.max(1),
                    idx % w.max(1),
                    describe(got),
                    describe(want)
                ),
            ));
        }
    }
    Ok(())
}

pub(crate) fn snapshot_of(surf: &impl Surface<Item = Cell>) -> Snapshot {
    let mut snap = SurfaceOwned::new(surf.size());
    for r in 0..surf.height() {
        for c in 0..surf.width() {
            let pos = Position::new(r, c);
            snap.set(pos, surf.get(pos).unwrap().clone());
        }
    }
    snap
}

/// which risky features does this snapshot history use (for signatures)
#[derive(Default, Clone)]
struct Used {
    wide: bool,
    image: bool,
    decorated_blank: bool,
    sentinel: bool,
    overlap: bool,
    cell_personality: bool,
    forced_clear: bool,
    session: bool,
    dropped: bool,
    error_path: bool,
    bare_recreate: bool,
}

impl Used {
    fn scan(&mut self, snap: &Snapshot, ppc: Size) {
        let mut areas: Vec<(Position, Size)> = Vec::new();
        for r in 0..snap.height() {
            for c in 0..snap.width() {
                let pos = Position::new(r, c);
                let cell = snap.get(pos).unwrap();
                match cell.kind() {
                    CellKind::Char(ch) => {
                        if ch.width().unwrap_or(0) == 2 {
                            self.wide = true;
                        }
                        let f = cell.face();
                        if *ch == ' ' && (f.attrs.underline() != UnderlineStyle::None || f.attrs.contains(FaceAttrs::REVERSE)) {
                            self.decorated_blank = true;
                        }
                        if f == FACES_POOL[5]() {
                            self.sentinel = true;
                        }
                    }
                    CellKind::Image(img) => {
                        self.image = true;
                        areas.push((pos, img.size_cells(ppc)));
                    }
                    CellKind::Glyph(glyph) => {
                        self.image = true;
                        areas.push((pos, glyph.size()));
                    }
                }
            }
        }
        for (i, (p, s)) in areas.iter().enumerate() {
            for (q, t) in areas.iter().skip(i + 1) {
                if p.row < q.row + t.height && q.row < p.row + s.height && p.col < q.col + t.width && q.col < p.col + s.width {
                    self.overlap = true;
                }
            }
        }
    }

    /// '+' separated, alphabetically sorted list of the risky features this history used:
    /// the signature of a violation (known findings are keyed on it)
    fn features(&self) -> String {
        let mut out = Vec::new();
        for (on, name) in [
            (self.bare_recreate, "bare-recreate"),
            (self.image && self.cell_personality, "cell-personality"),
            (self.decorated_blank, "decorated-blank"),
            (self.error_path, "error-path"),
            (self.forced_clear, "forced-clear"),
            (self.dropped, "frames-dropped"),
            (self.image, "image"),
            (self.overlap, "image-overlap"),
            (self.session, "run-render"),
            (self.sentinel, "sentinel-face"),
            (self.wide, "wide-char"),
        ] {
            if on {
                out.push(name);
            }
        }
        if out.is_empty() {
            out.push("plain");
        }
        out.join("+")
    }
}

fn gen_size(src: &mut Src) -> TerminalSize {
    let h = 1 + src.draw(6) as usize;
    let w = 1 + src.draw(12) as usize;
    let cell = *src.pick(&[Size::new(2, 2), Size::new(0, 0), Size::new(5, 3)]);
    TerminalSize { cells: Size::new(h, w), pixels: Size::new(h * cell.height, w * cell.width) }
}

fn gen_pools(ctx: &Ctx, src: &mut Src, size: TerminalSize) -> Pools {
    let ppc = size.pixels_per_cell();
    let (ph, pw) = (ppc.height.max(1), ppc.width.max(1));
    let images = vec![make_image(ph, pw, 10), make_image(ph, 2 * pw, 20), make_image(2 * ph, 2 * pw, 30), make_image(ph, pw, 10), make_image(2 * ph, pw, 40), make_image(3 * ph, pw, 50)];
    let glyphs = vec![make_glyph(1, 2), make_glyph(2, 2)];
    Pools {
        images,
        glyphs,
        chars_wide: !ctx.avoids("wide-char") && src.chance(2, 3),
        images_on: !ctx.avoids("image") && src.chance(1, 2),
        overlap: !ctx.avoids("image-overlap") && src.chance(1, 2),
        shadow_draw: !ctx.avoids("shadow-draw") && src.chance(1, 2),
        decorated: !ctx.avoids("decorated-blank") && src.chance(1, 2),
        sentinel: !ctx.avoids("sentinel-face") && src.chance(1, 8),
    }
}

fn run(ctx: &Ctx, src: &mut Src) -> WorldResult {
    if src.draw(4) == 3 {
        return run_session(ctx, src);
    }
    let mut size = gen_size(src);
    let layered = !src.chance(1, 3);
    let mut pools = gen_pools(ctx, src, size);
    let prefill = src.chance(1, 3);
    src.log(|| format!("terminal {}x{} ppc={:?} personality={} prefill={}", size.cells.height, size.cells.width, size.pixels_per_cell(), if layered { "layered" } else { "cell" }, prefill));
    let shared = Rc::new(RefCell::new(Shared { screen: Screen::new(size, layered), pending: VecDeque::new(), pending_frame: VecDeque::new(), frame_no: 0, delivered_frame: 0, current: Vec::new(), size, commands: 0, fail_execute_in: None, log: None, dropped: false, dropped_at_command: 0, polls: 0, dropped_at_poll: 0, last_frame: None, frame_set_at_command: 0, features: String::new(), violation: None, frames_checked: 0 }));
    let mut term = StubTerm { shared: shared.clone(), caps: TerminalCaps::default(), script: Rc::new(RefCell::new(VecDeque::new())), drop_all: true };
    if prefill {
        shared.borrow_mut().screen.scribble(src);
    }
    let mut renderer = TerminalRenderer::new(&mut term, prefill).map_err(|e| Violation::new(P, "C01.error", "new", format!("{e:?}")))?;
    let max_ops = if ctx.tier == Tier::Quick { 8 } else { 14 };
    let ops = 1 + src.draw(max_ops);
    let mut used = Used { cell_personality: !layered, forced_clear: prefill, ..Default::default() };
    let mut frames = 0;
    let mut context = if prefill { "first frame of new(clear=true) over a used screen".to_string() } else { "first frame".to_string() };
    let mut special = false;
    let mut prev_snap: Option<Snapshot> = None;
    let mut deferred: Option<Violation> = None;
    // in histories with overlapping pictures a frame is often followed by clear() and the same
    // frame again (what an application does after it dropped frames)
    let mut forced: VecDeque<u32> = VecDeque::new();
    let mut repeat_next = false;
    for _ in 0..ops {
        let op = match forced.pop_front() {
            Some(op) => op,
            None => src.draw(8),
        };
        match op {
            0..=4 => {
                // Frame
                let mut surf = renderer.surface();
                let sig = if repeat_next && prev_snap.is_some() {
                    let prev = prev_snap.as_ref().unwrap();
                    if prev.height() == surf.height() && prev.width() == surf.width() {
                        for r in 0..prev.height() {
                            for c in 0..prev.width() {
                                let pos = Position::new(r, c);
                                surf.set(pos, prev.get(pos).unwrap().clone());
                            }
                        }
                    }
                    src.probe("same-frame-drawn-again");
                    0x5AFE
                } else {
                    draw_frame(src, &pools, size, prev_snap.as_ref(), &mut |pos, cell| {
                        surf.set(pos, cell);
                    })
                };
                repeat_next = false;
                let snap = snapshot_of(&surf);
                prev_snap = Some(snapshot_of(&surf));
                if pools.overlap && used.overlap && forced.is_empty() && src.chance(1, 3) {
                    forced.push_back(6);
                    forced.push_back(0);
                    repeat_next = true;
                }
                used.scan(&snap, size.pixels_per_cell());
                src.sig(0xF0 ^ sig);
                src.log(|| format!("frame: {}", render_ascii(&snap)));
                renderer.frame(&mut term).map_err(|e| Violation::new(P, "C01.error", "frame", format!("{e:?}")))?;
                src.log(|| strip_ansi(format!("  commands: {:?}", shared.borrow().current)));
                term.deliver_all();
                frames += 1;
                let judged = check_screen(&shared.borrow().screen, &snap, size, &context, &used.features());
                match judged {
                    Ok(()) => {}
                    // the text layer under overlapping pictures on a layered terminal is the
                    // subject of an open finding and goes wrong early in such a history: the
                    // violation is kept and reported at the end, and the history goes on being
                    // judged for the one thing that finding does not touch - which pictures the
                    // terminal holds - so that the finding does not hide a lost or left-over picture
                    Err(v) if layered && used.overlap && (v.kind == "C01.vs-scratch" || (deferred.is_some() && v.kind != "C01.placements")) => {
                        if deferred.is_none() {
                            src.probe("overlap-history-judged-past-the-text-layer-finding");
                            deferred = Some(v);
                        }
                    }
                    Err(v) => return Err(v),
                }
                context = "a frame following an ordinary frame".to_string();
            }
            5 => {
                // NoFrame: application draws, frame is skipped, surface reset
                let mut surf = renderer.surface();
                draw_frame(src, &pools, size, prev_snap.as_ref(), &mut |pos, cell| {
                    surf.set(pos, cell);
                });
                renderer.surface().clear();
                src.sig(0xF1);
                src.log(|| "no-frame (surface reset)".to_string());
            }
            6 => {
                renderer.clear(&mut term).map_err(|e| Violation::new(P, "C01.error", "clear", format!("{e:?}")))?;
                term.deliver_all();
                src.sig(0xF2);
                src.log(|| "clear()".to_string());
                context = "the frame following clear()".to_string();
                special = true;
                used.forced_clear = true;
            }
            _ => {
                // Recreate: clear + new(clear=true), optionally with resize and whatever is left on the screen
                // (bare: the old renderer is simply forgotten, what it drew is what the terminal
                // "showed before")
                let bare = !ctx.avoids("bare-recreate") && src.chance(1, 4);
                if bare {
                    used.bare_recreate = true;
                    src.probe("renderer-recreated-without-clear");
                } else {
                    renderer.clear(&mut term).map_err(|e| Violation::new(P, "C01.error", "clear", format!("{e:?}")))?;
                }
                term.deliver_all();
                let resize = src.chance(1, 2);
                if resize {
                    size = gen_size(src);
                    pools = gen_pools(ctx, src, size);
                    let mut sh = shared.borrow_mut();
                    sh.size = size;
                    let old = sh.screen.clone();
                    sh.screen = Screen::new(size, layered);
                    sh.screen.face = old.face;
                }
                if src.chance(1, 2) {
                    shared.borrow_mut().screen.scribble(src);
                }
                renderer = TerminalRenderer::new(&mut term, true).map_err(|e| Violation::new(P, "C01.error", "new", format!("{e:?}")))?;
                src.sig(0xF3 + resize as u64);
                src.log(|| format!("recreate renderer (clear=true) resize={} -> {}x{}", resize, size.cells.height, size.cells.width));
                context = "the first frame of a re-created renderer (clear=true)".to_string();
                special = true;
                used.forced_clear = true;
            }
        }
    }
    if frames >= 2 || special {
        src.nontrivial = true;
    }
    if special {
        src.probe("clear-or-recreate-in-history");
    }
    if used.wide {
        src.probe("wide-char-drawn");
    }
    if used.image {
        src.probe("image-or-glyph-drawn");
    }
    if let Some(v) = deferred {
        return Err(v);
    }
    Ok(())
}

pub(crate) fn render_ascii(snap: &Snapshot) -> String {
    let mut out = String::new();
    for r in 0..snap.height() {
        out.push('|');
        for c in 0..snap.width() {
            let cell = snap.get(Position::new(r, c)).unwrap();
            let f = cell.face();
            let tag = FACES_POOL.iter().position(|p| p() == f).map(|i| i.to_string()).unwrap_or_else(|| "?".into());
            match cell.kind() {
                CellKind::Char(ch) => {
                    out.push(*ch);
                    out.push_str(&tag);
                }
                CellKind::Image(img) => out.push_str(&format!("I{}x{}", img.height(), img.width())),
                CellKind::Glyph(g) => out.push_str(&format!("G{}x{}", g.size().height, g.size().width)),
            }
            out.push(' ');
        }
    }
    out
}

// ---------------------------------------------------------------- run_render sessions

fn run_session(ctx: &Ctx, src: &mut Src) -> WorldResult {
    let size0 = gen_size(src);
    let layered = !src.chance(1, 3);
    let drop_all = src.chance(1, 2);
    let long = src.chance(1, 4);
    let no_images = long && ctx.avoids("drop-with-image");
    let steps = if long { 36 + src.draw(44) as usize } else { 1 + src.draw(10) as usize };
    let slow = long || src.chance(1, 3);
    src.log(|| format!("run_render session: terminal {}x{} ppc={:?} personality={} frames_drop={} steps={} slow={}", size0.cells.height, size0.cells.width, size0.pixels_per_cell(), if layered { "layered" } else { "cell" }, if drop_all { "all" } else { "all-but-in-flight" }, steps, slow));
    let shared = Rc::new(RefCell::new(Shared { screen: Screen::new(size0, layered), pending: VecDeque::new(), pending_frame: VecDeque::new(), frame_no: 0, delivered_frame: 0, current: Vec::new(), size: size0, commands: 0, fail_execute_in: None, log: None, dropped: false, dropped_at_command: 0, polls: 0, dropped_at_poll: 0, last_frame: None, frame_set_at_command: 0, features: String::new(), violation: None, frames_checked: 0 }));
    if src.tracing() {
        shared.borrow_mut().log = Some(Vec::new());
    }
    let script = Rc::new(RefCell::new(VecDeque::new()));
    // script of poll results
    let mut sizes = vec![size0];
    {
        let mut script = script.borrow_mut();
        for _ in 0..steps {
            let deliver = if slow { if src.chance(1, 12) { 1 + src.draw(3) as usize } else { 0 } } else { src.draw(4) as usize };
            match src.draw(12) {
                0 => {
                    let size = gen_size(src);
                    sizes.push(size);
                    script.push_back(PollStep::Resize(deliver, size));
                }
                1 | 2 => script.push_back(PollStep::Event(deliver, Some(TerminalEvent::Key(Key::from(KeyName::Char('k')))))),
                _ => script.push_back(PollStep::Event(deliver, None)),
            }
        }
        if src.chance(1, 3) {
            script.push_back(PollStep::Fail);
        }
    }
    let mut term = StubTerm { shared: shared.clone(), caps: TerminalCaps::default(), script: script.clone(), drop_all };
    // the application: draws per handler call, decides the action
    let last: Rc<RefCell<Option<(Snapshot, TerminalSize)>>> = Rc::new(RefCell::new(None));
    let used = Rc::new(RefCell::new(Used { cell_personality: !layered, session: true, ..Default::default() }));
    let mut handler_calls = 0usize;
    let total = script.borrow().len();
    let mut live = Src::replay(Vec::new());
    std::mem::swap(src, &mut live);
    let live = Rc::new(RefCell::new(live));
    let mut dropped_seen = false;
    let mut size_now = size0;
    let prev_drawn_cell: RefCell<Option<Snapshot>> = RefCell::new(None);
    let mut pools_cache: Option<(TerminalSize, Pools)> = None;
    let result: Result<u32, Error> = std::panic::catch_unwind(std::panic::AssertUnwindSafe(|| {
        let live = live.clone();
        let last = last.clone();
        let used = used.clone();
        let shared2 = shared.clone();
        term.run_render(|term, event, mut surf| -> Result<TerminalAction<u32>, Error> {
            handler_calls += 1;
            let mut src = live.borrow_mut();
            if let Some(log) = shared2.borrow_mut().log.as_mut() {
                for line in log.drain(..) {
                    src.log(|| line);
                }
            }
            if let Some(TerminalEvent::Resize(size)) = event {
                size_now = size;
            }
            let size = term.size()?;
            let _ = size_now;
            if pools_cache.as_ref().map(|(s, _)| *s != size).unwrap_or(true) {
                let mut pools = gen_pools(ctx, &mut src, size);
                if no_images {
                    pools.images_on = false;
                }
                pools_cache = Some((size, pools));
            }
            let pools = &pools_cache.as_ref().unwrap().1;
            if shared2.borrow().pending.len() > 32 {
                dropped_seen = true;
            }
            let prev_drawn = prev_drawn_cell.borrow_mut().take();
            let sig = draw_frame(&mut src, pools, size, prev_drawn.as_ref(), &mut |pos, cell| {
                if pos.row < surf.height() && pos.col < surf.width() {
                    surf.set(pos, cell);
                }
            });
            *prev_drawn_cell.borrow_mut() = Some(snapshot_of(&surf));
            src.sig(0xE0 ^ sig);
            let action = match src.draw(8) {
                0 => TerminalAction::WaitNoFrame,
                1 => TerminalAction::Sleep(Duration::from_millis(1)),
                _ => TerminalAction::Wait,
            };
            let quit = handler_calls >= total.max(1) + 1;
            if !matches!(action, TerminalAction::WaitNoFrame) || quit {
                let snap = snapshot_of(&surf);
                used.borrow_mut().scan(&snap, size.pixels_per_cell());
                src.log(|| format!("handler#{handler_calls} event={:?} frame: {}", event, render_ascii(&snap)));
                {
                    let mut sh = shared2.borrow_mut();
                    let mut u = used.borrow_mut();
                    u.dropped |= sh.dropped;
                    u.forced_clear |= sh.dropped;
                    sh.features = u.features();
                    sh.last_frame = Some((snap.clone(), size));
                    sh.frame_set_at_command = sh.commands;
                    sh.frame_no = handler_calls as u64;
                }
                *last.borrow_mut() = Some((snap, size));
            } else {
                src.log(|| format!("handler#{handler_calls} event={:?} no frame", event));
            }
            if quit {
                return Ok(TerminalAction::Quit(7));
            }
            Ok(action)
        })
    }))
    .unwrap_or_else(|payload| {
        // the code under test panicked: hand the tape back before the panic travels on,
        // otherwise the run could not be replayed
        std::mem::swap(src, &mut live.borrow_mut());
        std::panic::resume_unwind(payload)
    });
    let mut live = Rc::try_unwrap(live).ok().expect("src still shared").into_inner();
    std::mem::swap(src, &mut live);
    term.deliver_all();
    if let Some(log) = shared.borrow_mut().log.as_mut() {
        for line in log.drain(..) {
            src.log(|| line);
        }
    }
    src.nontrivial = true;
    if dropped_seen {
        src.probe("backlog-crossed-frame-drop-threshold");
    }
    if sizes.len() > 1 {
        src.probe("resize-during-run-render");
    }
    let dropped_seen = dropped_seen || shared.borrow().dropped;
    if shared.borrow().dropped && shared.borrow().dropped_at_poll == shared.borrow().polls {
        src.probe("frames-dropped-on-the-final-iteration");
    }
    {
        let mut used = used.borrow_mut();
        used.dropped = dropped_seen;
        used.error_path = result.is_err();
        used.forced_clear |= dropped_seen || sizes.len() > 1;
    }
    let features = used.borrow().features();
    if shared.borrow().frames_checked > 0 {
        src.probe("session-frame-checked-when-fully-delivered");
    }
    if let Some(violation) = shared.borrow_mut().violation.take() {
        return Err(violation);
    }
    match result {
        Ok(_) => {
            src.sig_str("session:quit");
            if let Some((snap, size)) = last.borrow().as_ref() {
                let screen = shared.borrow().screen.clone();
                if screen.h == size.cells.height && screen.w == size.cells.width {
                    check_screen(&screen, snap, *size, if dropped_seen { "a run_render session that dropped frames" } else { "a run_render session" }, &features)?;
                }
            }
        }
        Err(_) => {
            // error path renders a cleanup frame: the screen must be blank afterwards
            src.sig_str("session:error");
            src.probe("run-render-error-path");
            let size = shared.borrow().size;
            let screen = shared.borrow().screen.clone();
            let blank: Snapshot = SurfaceOwned::new(size.cells);
            if screen.h == size.cells.height && screen.w == size.cells.width {
                check_screen(&screen, &blank, size, "the cleanup frame of the run_render error path", &features)?;
            }
        }
    }
    Ok(())
}
