//! World `kitty` (C11): the real `KittyImageHandler` talking to a reference kitty graphics
//! peer (image store with eviction, error replies) through a failing writer; replies travel
//! back through the real event decoder under a read schedule.
use crate::core::{Ctx, Tier, Violation, World, WorldResult};
use crate::tape::{cuts, Src};
use std::collections::BTreeMap;
use std::io::Write;
use surf_n_term::decoder::{Decoder, TTYEventDecoder};
use surf_n_term::{Image, ImageHandler, KittyImageHandler, Position, Shape, Size, Surface, TerminalEvent, RGBA};

const P: &str = "C11";

pub fn world() -> World {
    World {
        name: "kitty",
        properties: &["C11"],
        run,
        real: &["image::KittyImageHandler::{draw,erase,handle}", "encoder::Base64Encoder", "decoder::TTYEventDecoder (reply path)"],
        stub: &[
            "byte sink (hard error at byte k)",
            "reference kitty graphics peer: APC parser, chunk reassembly, independent base64 decoder, image store with eviction, placements, OK/ENOENT replies",
            "reply transport: read schedule in front of the event decoder",
        ],
        assumptions: &[
            "kitty graphics protocol semantics: images by id, placements by (image id, placement id), placement id 0 or absent means unspecified (a put creates an additional anonymous placement, a delete removes every placement of the image)",
            "an ESC inside an unterminated APC string aborts it; after a failed write the peer discards the partial command and any partial chunked transmission",
            "position (65535, 65535) is replaced by (65534, 65535): 2^32 positions can not be mapped injectively onto the 2^32-1 valid placement ids",
            "image ids are content hashes modulo 2^32-1; hash collisions are ignored",
        ],
        rule: "one run = one handler and one history of draw / erase / peer eviction / spontaneous error reply events over a pool of images (1x1 .. 70x70, cropped views, equal pixels under different allocations, the empty image) at positions including row/col 0 and 65535, with a sink that may fail at a drawn byte; non-trivial = at least two operations or a fault fired; distinct = distinct hash of (op kinds, image classes, position classes, reply kinds)",
        runs: |_, tier| match tier {
            Tier::Quick => 240_000,
            Tier::Thorough => 6_000_000,
        },
        features: &["origin-placement", "empty-image"],
    }
}

// ---------------------------------------------------------------- reference peer

fn b64_value(c: u8) -> Option<u32> {
    match c {
        b'A'..=b'Z' => Some((c - b'A') as u32),
        b'a'..=b'z' => Some((c - b'a') as u32 + 26),
        b'0'..=b'9' => Some((c - b'0') as u32 + 52),
        b'+' => Some(62),
        b'/' => Some(63),
        _ => None,
    }
}

fn b64_decode(text: &[u8]) -> Result<Vec<u8>, String> {
    if text.len() % 4 != 0 {
        return Err(format!("base64 length {} is not a multiple of four", text.len()));
    }
    let mut out = Vec::with_capacity(text.len() / 4 * 3);
    for (gi, group) in text.chunks(4).enumerate() {
        let last = gi + 1 == text.len() / 4;
        let pad = group.iter().rev().take_while(|c| **c == b'=').count();
        if pad > 2 || (pad > 0 && !last) {
            return Err("misplaced padding".to_string());
        }
        let mut n = 0u32;
        for c in &group[..4 - pad] {
            n = (n << 6) | b64_value(*c).ok_or_else(|| format!("invalid base64 symbol {:#x}", c))?;
        }
        n <<= 6 * pad as u32;
        out.push((n >> 16) as u8);
        if pad < 2 {
            out.push((n >> 8) as u8);
        }
        if pad < 1 {
            out.push(n as u8);
        }
    }
    Ok(out)
}

#[derive(Default)]
struct PeerImage {
    width: usize,
    height: usize,
    data: Vec<u8>,
}

#[derive(Default)]
struct Transmission {
    id: u64,
    width: usize,
    height: usize,
    payload: Vec<u8>,
    quiet: u32,
}

#[derive(Default)]
struct Peer {
    images: BTreeMap<u64, PeerImage>,
    /// (image id, placement id) -> count; placement id 0 = anonymous placements
    placements: BTreeMap<(u64, u64), u64>,
    partial: Option<Transmission>,
    /// completed transmissions per image id
    transmissions: BTreeMap<u64, u64>,
    replies: Vec<Vec<u8>>,
    /// parser state: bytes of the current APC string
    apc: Option<Vec<u8>>,
    esc: bool,
    commands: u64,
    multi_chunk: u64,
    /// last put command seen: (image id, placement id)
    last_put: Option<(u64, u64)>,
    /// put that referred to an image which was never transmitted
    untransmitted_put: Option<u64>,
    /// image ids for which the handler has been told (error reply) that the terminal does not
    /// hold them and which it has not transmitted again since
    invalidated: std::collections::BTreeSet<u64>,
    /// put for an invalidated image
    stale_put: Option<u64>,
    /// images freed by an upper case delete of the handler
    freed_on_request: u64,
    freed_ids: std::collections::BTreeSet<u64>,
}

impl Peer {
    fn feed(&mut self, bytes: &[u8]) -> Result<(), String> {
        for byte in bytes {
            let byte = *byte;
            if self.esc {
                self.esc = false;
                match (byte, self.apc.take()) {
                    (b'\\', Some(apc)) => self.command(&apc)?,
                    (b'_', _) => self.apc = Some(Vec::new()),
                    // any other escape sequence aborts a string; CSI etc. are not graphics commands
                    _ => {}
                }
                continue;
            }
            if byte == 0x1b {
                self.esc = true;
                continue;
            }
            if let Some(apc) = self.apc.as_mut() {
                apc.push(byte);
            }
        }
        Ok(())
    }

    /// the sink failed: the terminal never sees the rest
    fn abort(&mut self) {
        self.apc = None;
        self.esc = false;
        self.partial = None;
    }

    fn reply(&mut self, id: u64, placement: Option<u64>, msg: &str) {
        let mut text = format!("\x1b_Gi={id}");
        if let Some(p) = placement {
            text.push_str(&format!(",p={p}"));
        }
        text.push_str(&format!(";{msg}\x1b\\"));
        self.replies.push(text.into_bytes());
    }

    fn command(&mut self, apc: &[u8]) -> Result<(), String> {
        self.commands += 1;
        if apc.first() != Some(&b'G') {
            return Err(format!("APC string is not a graphics command: {:?}", String::from_utf8_lossy(apc)));
        }
        let body = &apc[1..];
        let (control, payload) = match body.iter().position(|b| *b == b';') {
            Some(at) => (&body[..at], &body[at + 1..]),
            None => (body, &body[body.len()..]),
        };
        let mut keys: BTreeMap<u8, String> = BTreeMap::new();
        if !control.is_empty() {
            for kv in control.split(|b| *b == b',') {
                let mut it = kv.splitn(2, |b| *b == b'=');
                let key = it.next().unwrap_or(&[]);
                let value = it.next().ok_or_else(|| format!("control item without '=': {:?}", String::from_utf8_lossy(control)))?;
                if key.len() != 1 || !key[0].is_ascii_alphabetic() {
                    return Err(format!("invalid control key in {:?}", String::from_utf8_lossy(control)));
                }
                if value.is_empty() || !value.iter().all(|b| b.is_ascii_alphanumeric() || *b == b'-') {
                    return Err(format!("invalid control value in {:?}", String::from_utf8_lossy(control)));
                }
                if keys.insert(key[0], String::from_utf8_lossy(value).to_string()).is_some() {
                    return Err(format!("repeated control key in {:?}", String::from_utf8_lossy(control)));
                }
            }
        }
        let num = |keys: &BTreeMap<u8, String>, key: u8| -> Result<Option<u64>, String> {
            match keys.get(&key) {
                None => Ok(None),
                Some(text) => text.parse::<u64>().map(Some).map_err(|_| format!("key {} is not a number: {text}", key as char)),
            }
        };
        let more = num(&keys, b'm')?.unwrap_or(0);
        if more > 1 {
            return Err(format!("m={more}"));
        }
        // continuation of a chunked transmission
        if let Some(mut partial) = self.partial.take() {
            if keys.keys().any(|k| !matches!(k, b'm' | b'q')) {
                return Err(format!("chunked transmission of image {} interrupted by another command: {:?}", partial.id, String::from_utf8_lossy(control)));
            }
            self.check_chunk(payload, more == 1)?;
            partial.payload.extend_from_slice(payload);
            if more == 1 {
                self.partial = Some(partial);
            } else {
                self.multi_chunk += 1;
                self.complete(partial)?;
            }
            return Ok(());
        }
        let action = keys.get(&b'a').map(|s| s.as_str()).unwrap_or("t").to_string();
        let quiet = num(&keys, b'q')?.unwrap_or(0) as u32;
        match action.as_str() {
            "t" => {
                let id = num(&keys, b'i')?.ok_or("transmission without image id")?;
                if id == 0 || id > 4294967295 {
                    return Err(format!("image id {id} out of range"));
                }
                if keys.get(&b'f').map(|s| s.as_str()) != Some("32") {
                    return Err(format!("pixel format is not f=32: {:?}", keys.get(&b'f')));
                }
                let width = num(&keys, b's')?.ok_or("transmission without width")? as usize;
                let height = num(&keys, b'v')?.ok_or("transmission without height")? as usize;
                self.check_chunk(payload, more == 1)?;
                let transmission = Transmission { id, width, height, payload: payload.to_vec(), quiet };
                if more == 1 {
                    self.partial = Some(transmission);
                } else {
                    self.complete(transmission)?;
                }
            }
            "p" => {
                let id = num(&keys, b'i')?.ok_or("put without image id")?;
                let placement = num(&keys, b'p')?.unwrap_or(0);
                if placement > 4294967295 {
                    return Err(format!("placement id {placement} out of range"));
                }
                self.last_put = Some((id, placement));
                if self.invalidated.contains(&id) {
                    self.stale_put = Some(id);
                }
                if !self.images.contains_key(&id) {
                    if !self.transmissions.contains_key(&id) {
                        self.untransmitted_put = Some(id);
                    }
                    if quiet < 2 {
                        self.reply(id, if placement != 0 { Some(placement) } else { None }, "ENOENT:Put command refers to non-existent image");
                    }
                    return Ok(());
                }
                if placement == 0 {
                    *self.placements.entry((id, 0)).or_default() += 1;
                } else {
                    self.placements.insert((id, placement), 1);
                }
                if quiet == 0 {
                    self.reply(id, if placement != 0 { Some(placement) } else { None }, "OK");
                }
            }
            "d" => {
                let what = keys.get(&b'd').map(|s| s.as_str()).unwrap_or("a");
                if what != "i" && what != "I" {
                    return Err(format!("unexpected delete mode d={what}"));
                }
                let id = num(&keys, b'i')?.ok_or("delete without image id")?;
                let placement = num(&keys, b'p')?.unwrap_or(0);
                if placement == 0 {
                    self.placements.retain(|(i, _), _| *i != id);
                } else {
                    self.placements.remove(&(id, placement));
                }
                // the upper case form also frees the image data once nothing refers to it: from
                // then on the image has to be transmitted again before it can be placed
                if what == "I" && !self.placements.keys().any(|(i, _)| *i == id) && self.images.remove(&id).is_some() {
                    self.invalidated.insert(id);
                    self.freed_ids.insert(id);
                    self.freed_on_request += 1;
                }
            }
            "q" => {}
            other => return Err(format!("unknown action a={other}")),
        }
        Ok(())
    }

    fn check_chunk(&self, payload: &[u8], more: bool) -> Result<(), String> {
        if payload.len() > 4096 {
            return Err(format!("chunk of {} bytes exceeds 4096", payload.len()));
        }
        if more && payload.len() % 4 != 0 {
            return Err(format!("non-final chunk of {} bytes is not a multiple of four", payload.len()));
        }
        Ok(())
    }

    fn complete(&mut self, t: Transmission) -> Result<(), String> {
        let data = b64_decode(&t.payload)?;
        if t.width == 0 || t.height == 0 {
            return Err(format!("transmission of image {} declares size {}x{}", t.id, t.width, t.height));
        }
        if data.len() != t.width * t.height * 4 {
            return Err(format!("image {}: payload of {} bytes for declared {}x{} RGBA", t.id, data.len(), t.width, t.height));
        }
        self.images.insert(t.id, PeerImage { width: t.width, height: t.height, data });
        self.invalidated.remove(&t.id);
        self.freed_ids.remove(&t.id);
        *self.transmissions.entry(t.id).or_default() += 1;
        if t.quiet == 0 {
            self.reply(t.id, None, "OK");
        }
        Ok(())
    }

    fn evict(&mut self, id: u64) {
        self.images.remove(&id);
        self.placements.retain(|(i, _), _| *i != id);
    }
}

// ---------------------------------------------------------------- workload

struct FailingSink {
    buf: Vec<u8>,
    fail_at: Option<usize>,
    failed: bool,
}

impl Write for FailingSink {
    fn write(&mut self, data: &[u8]) -> std::io::Result<usize> {
        if let Some(at) = self.fail_at {
            if self.buf.len() + data.len() > at {
                let n = at.saturating_sub(self.buf.len());
                if n > 0 {
                    self.buf.extend_from_slice(&data[..n]);
                    return Ok(n);
                }
                self.failed = true;
                return Err(std::io::Error::other("injected sink error"));
            }
        }
        self.buf.extend_from_slice(data);
        Ok(data.len())
    }

    fn flush(&mut self) -> std::io::Result<()> {
        Ok(())
    }
}

fn pixel(seed: u8, r: usize, c: usize) -> RGBA {
    RGBA::new(seed.wrapping_add((r * 31) as u8), (c * 17) as u8 ^ seed, (r as u8) ^ (c as u8).wrapping_mul(3), 255u8.wrapping_sub((r + c) as u8 % 3 * 60))
}

struct PoolImage {
    image: Image,
    /// expected RGBA bytes in row-major order
    rgba: Vec<u8>,
    class: &'static str,
}

fn full_image(seed: u8, h: usize, w: usize) -> Image {
    let mut data = Vec::with_capacity(h * w);
    for r in 0..h {
        for c in 0..w {
            data.push(pixel(seed, r, c));
        }
    }
    Image::from_parts(data.into(), Shape::from(Size::new(h, w)))
}

fn expected_rgba(seed: u8, r0: usize, c0: usize, h: usize, w: usize, rstep: usize, cstep: usize) -> Vec<u8> {
    use surf_n_term::Color;
    let mut out = Vec::with_capacity(h * w * 4);
    for r in 0..h {
        for c in 0..w {
            out.extend_from_slice(&pixel(seed, r0 + r * rstep, c0 + c * cstep).to_rgba());
        }
    }
    out
}

fn gen_pool(ctx: &Ctx, src: &mut Src) -> Vec<PoolImage> {
    let mut pool = Vec::new();
    let count = 2 + src.draw(3);
    for idx in 0..count {
        let seed = 10 + idx as u8 * 40;
        let (h, w) = match src.draw(6) {
            0 => (1, 1),
            1 => (1 + src.draw(4) as usize, 1 + src.draw(4) as usize),
            2 => (32, 24), // 3072 pixel bytes -> exactly 4096 base64 bytes
            3 => (32, 24 + 1 + src.draw(3) as usize),
            4 => (1 + src.draw(70) as usize, 1 + src.draw(70) as usize),
            _ => (64, 48 + src.draw(2) as usize), // crosses 8192/16384
        };
        match src.draw(5) {
            0 | 1 => pool.push(PoolImage { image: full_image(seed, h, w), rgba: expected_rgba(seed, 0, 0, h, w, 1, 1), class: "plain" }),
            2 => {
                // cropped view of a larger image
                let (r0, c0) = (src.draw(3) as usize, src.draw(3) as usize);
                let base = full_image(seed, h + r0 + 2, w + c0 + 1);
                let image = base.crop(r0..r0 + h, c0..c0 + w);
                pool.push(PoolImage { image, rgba: expected_rgba(seed, r0, c0, h, w, 1, 1), class: "cropped" });
            }
            3 => {
                // same pixels as the previous image under another allocation
                if let Some(prev) = pool.last() {
                    let size = prev.image.size();
                    let data: Vec<RGBA> = prev.image.iter().copied().collect();
                    let rgba = prev.rgba.clone();
                    pool.push(PoolImage { image: Image::from_parts(data.into(), Shape::from(size)), rgba, class: "same-pixels-other-allocation" });
                } else {
                    pool.push(PoolImage { image: full_image(seed, h, w), rgba: expected_rgba(seed, 0, 0, h, w, 1, 1), class: "plain" });
                }
            }
            _ => {
                // crop of a crop
                let base = full_image(seed, h + 4, w + 4);
                let image = base.crop(1.., 1..).crop(1..1 + h, 2..2 + w);
                pool.push(PoolImage { image, rgba: expected_rgba(seed, 2, 3, h, w, 1, 1), class: "nested-crop" });
            }
        }
    }
    if !ctx.avoids("empty-image") && src.chance(1, 6) {
        let base = full_image(7, 3, 3);
        pool.push(PoolImage { image: base.crop(1..1, ..), rgba: Vec::new(), class: "empty" });
    }
    pool
}

const COORDS: &[usize] = &[1, 0, 2, 7, 255, 65534, 65535];

fn gen_pos(ctx: &Ctx, src: &mut Src) -> Position {
    let mut row = *src.pick(COORDS);
    let mut col = *src.pick(COORDS);
    if row == 65535 && col == 65535 {
        row = 65534;
    }
    if ctx.avoids("origin-placement") && row == 0 && col == 0 {
        col = 1;
    }
    Position::new(row, col)
}

fn placement_of(peer_key: u64) -> String {
    format!("p={}", peer_key)
}

fn run(ctx: &Ctx, src: &mut Src) -> WorldResult {
    let pool = gen_pool(ctx, src);
    let quiet = src.chance(1, 3);
    let mut handler = if quiet { KittyImageHandler::new().quiet() } else { KittyImageHandler::new() };
    let mut peer = Peer::default();
    // application level model: what is drawn where (image id -> set of positions)
    let mut drawn: BTreeMap<(u64, Position), ()> = BTreeMap::new();
    // placement id the handler uses for a position (learned from its put commands)
    let mut pos_to_p: BTreeMap<(u64, Position), u64> = BTreeMap::new();
    // handler level bookkeeping
    let mut error_replies: BTreeMap<u64, u64> = BTreeMap::new();
    let ids: Vec<u64> = pool.iter().map(|p| p.image.hash() % 4294967295).collect();
    src.log(|| format!("pool: {:?} quiet={}", pool.iter().zip(ids.iter()).map(|(p, id)| format!("{}:{}x{}:id={}", p.class, p.image.height(), p.image.width(), id)).collect::<Vec<_>>(), quiet));
    let max_ops = if ctx.tier == Tier::Quick { 10 } else { 24 };
    let ops = 1 + src.draw(max_ops);
    let mut decoder = TTYEventDecoder::new();
    // (until round 15 a sink error relaxed the pairing oracles for the rest of the run)
    let tainted = false;
    for step in 0..ops {
        let op = src.draw(10);
        let idx = src.draw(pool.len() as u32) as usize;
        let item = &pool[idx];
        let id = ids[idx];
        let fail_at = if src.chance(1, 12) { Some(src.draw(12000) as usize) } else { None };
        let mut sink = FailingSink { buf: Vec::new(), fail_at, failed: false };
        let mut call_failed = false;
        let mut drew: Option<(u64, Position)> = None;
        peer.last_put = None;
        match op {
            0..=4 => {
                let pos = gen_pos(ctx, src);
                src.log(|| format!("#{step} draw({}:{}x{}, {:?}) fail_at={:?}", item.class, item.image.height(), item.image.width(), pos, fail_at));
                src.sig(0x100 + idx as u64 * 8 + (pos.row == 0) as u64 * 2 + (pos.col == 0) as u64);
                let res = handler.draw(&mut sink, &item.image, pos);
                if res.is_err() {
                    call_failed = true;
                } else if !item.rgba.is_empty() {
                    drawn.insert((id, pos), ());
                    drew = Some((id, pos));
                }
                if item.rgba.is_empty() {
                    src.probe("empty-image-drawn");
                }
                if pos == Position::origin() {
                    src.probe("draw-at-origin");
                }
            }
            5 | 6 => {
                // erase something that is drawn (or a random position)
                let pos = if !drawn.is_empty() && src.chance(3, 4) {
                    let keys: Vec<_> = drawn.keys().filter(|(i, _)| *i == id).map(|(_, p)| *p).collect();
                    if keys.is_empty() { gen_pos(ctx, src) } else { keys[src.draw(keys.len() as u32) as usize] }
                } else {
                    gen_pos(ctx, src)
                };
                let all = src.chance(1, 8);
                src.log(|| format!("#{step} erase({}:{}x{}, {:?}) fail_at={:?}", item.class, item.image.height(), item.image.width(), if all { None } else { Some(pos) }, fail_at));
                src.sig(0x200 + idx as u64 * 8 + all as u64);
                let res = handler.erase(&mut sink, &item.image, if all { None } else { Some(pos) });
                if res.is_err() {
                    call_failed = true;
                } else if all {
                    drawn.retain(|(i, _), _| *i != id);
                } else {
                    drawn.remove(&(id, pos));
                }
                if pos == Position::origin() && !all {
                    src.probe("erase-at-origin");
                }
            }
            7 | 8 => {
                // the terminal evicts an image (storage quota): it forgets data and placements
                src.log(|| format!("#{step} peer evicts image id={id}"));
                src.sig(0x300 + idx as u64);
                src.fault("peer-eviction");
                peer.evict(id);
                drawn.retain(|(i, _), _| *i != id);
                continue;
            }
            _ => {
                // spontaneous error reply, for an existing placement of the image or for the image alone
                let existing: Vec<u64> = drawn.keys().filter(|(i, _)| *i == id).filter_map(|key| pos_to_p.get(key).copied()).filter(|p| *p != 0).collect();
                let placement = if !existing.is_empty() && src.chance(1, 2) { Some(existing[src.draw(existing.len() as u32) as usize]) } else { None };
                src.log(|| format!("#{step} peer sends spontaneous error for id={id} placement={:?}", placement));
                src.sig(0x400 + placement.is_some() as u64);
                src.fault("spontaneous-error-reply");
                peer.reply(id, placement, "EINVAL:something went wrong");
            }
        }
        // ---- deliver what was written, let the peer answer, feed replies back (bounded ping-pong)
        let mut rounds = 0;
        loop {
            rounds += 1;
            if sink.failed || call_failed {
                src.fault("sink-hard-error");
                // whatever reached the terminal before the failure is still parsed, the rest is lost
                let _ = peer.feed(&sink.buf);
                peer.abort();
                // (no run-wide relaxation: a failed call places or removes nothing - its last
                // command is cut short and discarded by the terminal - and an image counts as
                // transmitted exactly when its last chunk went out whole, so every oracle below
                // keeps its force for this call and for the rest of the history)
                peer.replies.clear();
                break;
            }
            if let Err(err) = peer.feed(&sink.buf) {
                return Err(Violation::new(P, "C11.malformed", classify(&err), format!("operation #{step}: {err}")));
            }
            if peer.partial.is_some() || peer.apc.is_some() {
                return Err(Violation::new(P, "C11.malformed", "unterminated-command", format!("operation #{step} left an unterminated graphics command or chunked transmission")));
            }
            if peer.replies.is_empty() || rounds > 6 {
                break;
            }
            // replies travel through the real event decoder under a read schedule
            let stream: Vec<u8> = peer.replies.drain(..).flatten().collect();
            let schedule = cuts(src, stream.len(), true);
            if schedule.len() > 1 {
                src.probe("reply-cut-by-read-schedule");
            }
            let mut events = Vec::new();
            let mut off = 0;
            for cut in schedule {
                let chunk = &stream[off..off + cut];
                off += cut;
                let mut cur = std::io::Cursor::new(chunk);
                while let Ok(Some(event)) = decoder.decode(&mut cur) {
                    events.push(event);
                }
            }
            sink = FailingSink { buf: Vec::new(), fail_at: None, failed: false };
            for event in events {
                let mut errored: Option<u64> = None;
                if let TerminalEvent::KittyImage { id, error: Some(_), .. } = &event {
                    *error_replies.entry(*id).or_default() += 1;
                    src.probe("error-reply-handled");
                    errored = Some(*id);
                }
                let before = sink.buf.len();
                match handler.handle(&mut sink, &event) {
                    Ok(_) => {}
                    Err(err) => return Err(Violation::new(P, "C11.handle-error", "handle-error", format!("handle failed: {err:?}"))),
                }
                if let Some(id) = errored {
                    // the handler now knows that the terminal rejected this image; unless it
                    // re-transmits (which clears the mark when the peer sees it) any later
                    // placement of it refers to an image that is not there
                    if sink.buf.len() == before {
                        peer.invalidated.insert(id);
                    }
                }
            }
            if !sink.buf.is_empty() {
                src.probe("retransmission-after-error-reply");
            }
        }
        if let (Some(key), Some((pid, p))) = (drew, peer.last_put) {
            if pid == key.0 && !sink.failed && !call_failed {
                pos_to_p.insert(key, p);
            }
        }
        if let Some(id) = peer.stale_put.take() {
            if !tainted {
                let freed = peer.freed_ids.contains(&id);
                return Err(Violation::new(
                    P,
                    "C11.put-untransmitted",
                    if freed { "placement-after-own-upper-case-delete-without-retransmission" } else { "placement-after-error-reply-without-retransmission" },
                    if freed {
                        format!("operation #{step}: a put command refers to image id={id} whose data the handler itself had released with an upper case delete (d=I), and it was not transmitted again")
                    } else {
                        format!("operation #{step}: a put command refers to image id={id} although the terminal had answered with an error for it and it was not transmitted again")
                    },
                ));
            }
        }
        if let Some(id) = peer.untransmitted_put.take() {
            if !tainted {
                let class = ids.iter().position(|i| *i == id).map(|at| pool[at].class).unwrap_or("unknown");
                return Err(Violation::new(
                    P,
                    "C11.put-untransmitted",
                    if class == "empty" { "empty-image" } else { "placement-of-untransmitted-image" },
                    format!("operation #{step}: a put command refers to image id={id} ({class}) that was never transmitted on this handler"),
                ));
            }
        }
        // ---- invariants after the operation has settled
        // transmitted pixel data equals the image
        for (pid, image) in peer.images.iter() {
            if let Some(at) = ids.iter().position(|i| i == pid) {
                let want = &pool[at];
                if image.width != want.image.width() || image.height != want.image.height() || image.data != want.rgba {
                    return Err(Violation::new(
                        P,
                        "C11.payload",
                        want.class,
                        format!("image id={pid} ({} {}x{}): terminal holds {}x{} with {} bytes, pixels {}", want.class, want.image.height(), want.image.width(), image.height, image.width, image.data.len(), if image.data == want.rgba { "equal" } else { "differ" }),
                    ));
                }
            }
        }
        // transmit at most once (+ once per error reply)
        for (pid, count) in peer.transmissions.iter() {
            let allowed = 1 + error_replies.get(pid).copied().unwrap_or(0);
            if *count > allowed && !tainted {
                return Err(Violation::new(P, "C11.retransmit", "transmitted-more-than-once", format!("image id={pid} was transmitted {count} times with {} error replies", allowed - 1)));
            }
        }
        if tainted {
            // after a sink error only well-formedness and payload integrity of later calls are demanded
            continue;
        }
        // placements held by the terminal are exactly what the application has drawn and not erased
        let mut want: BTreeMap<(u64, u64), u64> = BTreeMap::new();
        for (key, _) in drawn.iter() {
            // every drawn position is one placement, addressed by the id the handler chose for it
            let p = pos_to_p.get(key).copied().unwrap_or(u64::MAX);
            *want.entry((key.0, p)).or_default() += 1;
        }
        let have: BTreeMap<(u64, u64), u64> = peer.placements.iter().map(|(k, v)| (*k, *v)).collect();
        let have_count = &have;
        let want_count = &want;
        if have_count != want_count {
            let origin = drawn.keys().any(|(_, p)| *p == Position::origin()) || have.keys().any(|(_, p)| *p == 0);
            let empty = pool.iter().any(|p| p.rgba.is_empty());
            let untransmitted: Vec<u64> = want_count.keys().map(|(i, _)| *i).filter(|i| !peer.images.contains_key(i)).collect();
            let signature = if !untransmitted.is_empty() {
                "placement-of-untransmitted-image"
            } else if origin {
                "origin-placement"
            } else if empty {
                "empty-image"
            } else {
                "placement-mismatch"
            };
            return Err(Violation::new(
                P,
                "C11.pairing",
                signature,
                format!(
                    "after operation #{step}: application has drawn {:?} (image id -> number of positions) but the terminal holds placements {:?} ({:?})",
                    want_count,
                    have_count,
                    have.keys().map(|(i, p)| format!("i={i},{}", placement_of(*p))).collect::<Vec<_>>()
                ),
            ));
        }
    }
    if ops >= 2 {
        src.nontrivial = true;
    }
    if peer.multi_chunk > 0 {
        src.probe("multi-chunk-transmission");
    }
    let _ = quiet;
    Ok(())
}

fn classify(err: &str) -> &'static str {
    if err.contains("exceeds 4096") || err.contains("multiple of four") {
        "chunking"
    } else if err.contains("payload of") || err.contains("base64") {
        "payload-size"
    } else if err.contains("declares size") {
        "empty-image"
    } else if err.contains("interrupted") {
        "interleaved-command"
    } else {
        "syntax"
    }
}
