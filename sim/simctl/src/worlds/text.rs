//! World `text` (C09): the real surface writers behind a chunking `Write` schedule into
//! sentinel-bordered views of a larger canvas, and `Text` layout versus render.
use crate::core::{Ctx, Tier, Violation, World, WorldResult};
use crate::tape::{cuts, Src};
use std::io::Write;
use surf_n_term::render::CellKind;
use surf_n_term::view::{BoxConstraint, Layout, Text, Tree, TreeMut, View, ViewContext, ViewLayoutStore, ViewMutLayout};
use surf_n_term::{
    Cell, CellWrite, Error, Face, FaceAttrs, Glyph, Image, Position, Size, Surface, SurfaceMut, SurfaceOwned, Terminal, TerminalCaps,
    TerminalCommand, TerminalEvent, TerminalSize, TerminalSurfaceExt, TerminalWaker, RGBA,
};
use unicode_width::UnicodeWidthChar;

const P: &str = "C09";

pub fn world() -> World {
    World {
        name: "text",
        properties: &["C09"],
        run,
        real: &[
            "render::TerminalWriter (io::Write and CellWrite)",
            "render::Utf8CellWriter, render::TTYCellWriter",
            "render::Cell::layout",
            "view::Text::{layout,render}",
            "surface views (sub view, view of view, transposed)",
        ],
        stub: &["byte sink schedule (partition of the written bytes into write calls)", "canvas with unique sentinel cells around the view", "reference line layout for the no-wrap clause"],
        assumptions: &[
            "written bytes are valid UTF-8 / well formed SGR sequences; only the partition into write calls varies",
            "every printable text cell carries a unique face tag so that 'exactly once, in reading order' is decidable",
            "carriage return is excluded from the completeness clause (overwriting is its meaning)",
        ],
        rule: "one run = one item sequence (narrow/wide/zero-width characters, newline, tab, glyphs with fallback, images, SGR sequences) written through one of the writers into a drawn view (plain, offset, view of view, transposed) of a sentinel-filled canvas under the whole-buffer schedule and k drawn schedules, or one Text laid out with a drawn width and rendered into a surface of exactly the reported size; non-trivial = a cut fell inside a UTF-8 character or escape sequence, or the text wrapped / dropped cells; distinct = distinct hash of (item kinds, view kind, writer kind, cut classes)",
        runs: |_, tier| match tier {
            Tier::Quick => 800_000,
            Tier::Thorough => 20_000_000,
        },
        features: &[],
    }
}

struct CtxTerm {
    size: TerminalSize,
    caps: TerminalCaps,
}

impl Write for CtxTerm {
    fn write(&mut self, buf: &[u8]) -> std::io::Result<usize> {
        Ok(buf.len())
    }

    fn flush(&mut self) -> std::io::Result<()> {
        Ok(())
    }
}

impl Terminal for CtxTerm {
    fn execute(&mut self, _cmd: TerminalCommand) -> Result<(), Error> {
        Ok(())
    }

    fn waker(&self) -> TerminalWaker {
        TerminalWaker::new(|| Ok(()))
    }

    fn poll(&mut self, _timeout: Option<std::time::Duration>) -> Result<Option<TerminalEvent>, Error> {
        Ok(None)
    }

    fn dyn_ref(&mut self) -> &mut dyn Terminal {
        self
    }

    fn size(&self) -> Result<TerminalSize, Error> {
        Ok(self.size)
    }

    fn position(&mut self) -> Result<Position, Error> {
        Ok(Position::origin())
    }

    fn frames_pending(&self) -> usize {
        0
    }

    fn frames_drop(&mut self) {}

    fn capabilities(&self) -> &TerminalCaps {
        &self.caps
    }
}

fn view_ctx(glyphs: bool, ppc: Size) -> ViewContext {
    let term = CtxTerm {
        size: TerminalSize { cells: Size::new(10, 10), pixels: Size::new(10 * ppc.height, 10 * ppc.width) },
        caps: TerminalCaps { glyphs, ..TerminalCaps::default() },
    };
    ViewContext::new(&term).expect("view context")
}

fn make_glyph(rows: usize, cols: usize, fallback: &str) -> Glyph {
    let json = format!(r#"{{"view_box":[0,0,24,24],"size":[{rows},{cols}],"path":"M2,2L22,2L22,22L2,22Z","fallback":"{fallback}"}}"#);
    serde_json::from_str(&json).expect("glyph")
}

fn make_image(h: usize, w: usize) -> Image {
    Image::from(SurfaceOwned::new_with(Size::new(h, w), |pos| RGBA::new(pos.row as u8, pos.col as u8, 9, 255)))
}

#[derive(Clone, Debug)]
enum Item {
    /// bytes written through the io::Write side
    Bytes(Vec<u8>),
    /// cell put through the CellWrite side
    Put(Cell),
    SetFace(Face),
}

fn sentinel(idx: usize) -> Cell {
    let ch = char::from_u32(0xE000 + (idx as u32 % 6000)).unwrap();
    Cell::new_char(Face::new(Some(RGBA::new(9, (idx >> 8) as u8, idx as u8, 255)), None, FaceAttrs::EMPTY), ch)
}

fn gen_items(src: &mut Src, tier: Tier, sgr: bool) -> Vec<Item> {
    let n = 1 + src.size(if tier == Tier::Quick { 16 } else { 48 }) as usize;
    let mut items = Vec::new();
    for _ in 0..n {
        match src.draw(12) {
            0..=5 => {
                // text bytes
                let len = 1 + src.draw(8);
                let mut text = String::new();
                for _ in 0..len {
                    let c = match src.draw(10) {
                        0 => '\n',
                        1 => '\t',
                        2 => '宽',
                        3 => '🤩',
                        4 => 'é',
                        5 => '\u{200b}', // zero width
                        6 => ' ',
                        7 => '\r',
                        _ => (b'a' + src.draw(26) as u8) as char,
                    };
                    text.push(c);
                }
                items.push(Item::Bytes(text.into_bytes()));
            }
            6 | 7 if sgr => {
                let seq = *src.pick(&["\x1b[31m", "\x1b[0m", "\x1b[1;4m", "\x1b[38;2;1;2;3m", "\x1b[48:2:9:8:7m", "\x1b[m", "\x1b[24;22m"]);
                items.push(Item::Bytes(seq.as_bytes().to_vec()));
            }
            8 => items.push(Item::Put(Cell::new_glyph(Face::default(), make_glyph(1 + src.draw(2) as usize, 1 + src.draw(3) as usize, *src.pick(&["g", "gl", "宽", ""]))))),
            9 => items.push(Item::Put(Cell::new_image(make_image(1 + src.draw(6) as usize, 1 + src.draw(9) as usize)))),
            10 => items.push(Item::SetFace(*src.pick(&[Face::default(), Face::new(None, Some(RGBA::new(1, 1, 200, 255)), FaceAttrs::EMPTY), Face::new(Some(RGBA::new(200, 1, 1, 255)), None, FaceAttrs::BOLD)]))),
            _ => items.push(Item::Put(Cell::new_char(Face::default(), *src.pick(&['x', '宽', '\n', '\t'])))),
        }
    }
    items
}

#[derive(Clone, Copy, Debug)]
struct ViewSpec {
    canvas: Size,
    r0: usize,
    r1: usize,
    c0: usize,
    c1: usize,
    /// second level view inside the first one
    nested: Option<(usize, usize, usize, usize)>,
    transposed: bool,
}

fn gen_view(src: &mut Src) -> ViewSpec {
    let h = 1 + src.draw(7) as usize;
    let w = 1 + src.draw(12) as usize;
    let r0 = src.draw(h as u32) as usize;
    let r1 = r0 + 1 + src.draw((h - r0) as u32) as usize;
    let c0 = src.draw(w as u32) as usize;
    let c1 = c0 + 1 + src.draw((w - c0) as u32) as usize;
    let nested = if src.chance(1, 3) {
        let (vh, vw) = (r1 - r0, c1 - c0);
        let a = src.draw(vh as u32) as usize;
        let b = a + 1 + src.draw((vh - a) as u32) as usize;
        let c = src.draw(vw as u32) as usize;
        let d = c + 1 + src.draw((vw - c) as u32) as usize;
        Some((a, b, c, d))
    } else {
        None
    };
    ViewSpec { canvas: Size::new(h, w), r0, r1, c0, c1, nested, transposed: src.chance(1, 4) }
}

/// canvas positions that belong to the view
fn inside(spec: &ViewSpec, pos: Position) -> bool {
    let (mut r0, mut r1, mut c0, mut c1) = (spec.r0, spec.r1, spec.c0, spec.c1);
    if let Some((a, b, c, d)) = spec.nested {
        r1 = r0 + b;
        r0 += a;
        c1 = c0 + d;
        c0 += c;
    }
    pos.row >= r0 && pos.row < r1 && pos.col >= c0 && pos.col < c1
}

#[derive(Clone, Copy, Debug, PartialEq)]
enum WriterKind {
    Direct,
    Utf8,
    Tty,
}

/// Write items into a fresh canvas under the schedule, returns canvas
fn write_all(spec: &ViewSpec, ctx: &ViewContext, kind: WriterKind, wraps: bool, items: &[Item], schedule: Option<&[usize]>) -> Result<SurfaceOwned<Cell>, String> {
    let mut index = 0;
    let mut canvas: SurfaceOwned<Cell> = SurfaceOwned::new_with(spec.canvas, |_| {
        index += 1;
        sentinel(index)
    });
    {
        let mut level1 = canvas.view_mut(spec.r0..spec.r1, spec.c0..spec.c1);
        let mut target = match spec.nested {
            Some((a, b, c, d)) => level1.view_mut(a..b, c..d),
            None => level1.as_mut(),
        };
        // concatenate byte items so that the schedule can cut anywhere, remember where cells go
        let mut off_in_schedule = 0usize;
        let mut cut_idx = 0usize;
        let mut cut_left = schedule.and_then(|s| s.first().copied()).unwrap_or(usize::MAX);
        let mut run = |writer: &mut dyn WriterLike| -> Result<(), String> {
            for item in items {
                match item {
                    Item::Bytes(bytes) => {
                        let mut rest: &[u8] = bytes;
                        while !rest.is_empty() {
                            // skip exhausted (possibly empty) cuts
                            while cut_left == 0 {
                                if let Some(s) = schedule {
                                    writer.write_bytes(&[])?;
                                    cut_idx += 1;
                                    cut_left = s.get(cut_idx).copied().unwrap_or(usize::MAX);
                                } else {
                                    cut_left = usize::MAX;
                                }
                            }
                            let n = rest.len().min(cut_left);
                            writer.write_bytes(&rest[..n])?;
                            rest = &rest[n..];
                            off_in_schedule += n;
                            if cut_left != usize::MAX {
                                cut_left -= n;
                            }
                        }
                    }
                    Item::Put(cell) => writer.put(cell.clone()),
                    Item::SetFace(face) => writer.face(*face),
                }
            }
            Ok(())
        };
        if spec.transposed {
            let mut view = target.transpose();
            let mut writer = view.writer(ctx).with_wraps(wraps);
            match kind {
                WriterKind::Direct => run(&mut Direct(&mut writer))?,
                WriterKind::Utf8 => run(&mut Wrapped(CellWrite::by_ref(&mut writer).utf8_writer()))?,
                WriterKind::Tty => run(&mut WrappedTty(CellWrite::by_ref(&mut writer).tty_writer()))?,
            }
        } else {
            let mut writer = target.writer(ctx).with_wraps(wraps);
            match kind {
                WriterKind::Direct => run(&mut Direct(&mut writer))?,
                WriterKind::Utf8 => run(&mut Wrapped(CellWrite::by_ref(&mut writer).utf8_writer()))?,
                WriterKind::Tty => run(&mut WrappedTty(CellWrite::by_ref(&mut writer).tty_writer()))?,
            }
        }
        let _ = off_in_schedule;
    }
    Ok(canvas)
}

trait WriterLike {
    fn write_bytes(&mut self, bytes: &[u8]) -> Result<(), String>;
    fn put(&mut self, cell: Cell);
    fn face(&mut self, face: Face);
}

struct Direct<'a, 'b>(&'a mut surf_n_term::TerminalWriter<'b>);

impl WriterLike for Direct<'_, '_> {
    fn write_bytes(&mut self, bytes: &[u8]) -> Result<(), String> {
        // a single write call per scheduled chunk, as `write_all` would do for a writer that accepts everything
        let full = self.0.cursor().row >= self.0.size().height;
        check_write(self.0.write(bytes), bytes.len(), full || self.0.cursor().row >= self.0.size().height)
    }

    fn put(&mut self, cell: Cell) {
        self.0.put_cell(cell);
    }

    fn face(&mut self, face: Face) {
        self.0.set_face(face);
    }
}

struct Wrapped<'a, 'b>(surf_n_term::render::Utf8CellWriter<&'a mut surf_n_term::TerminalWriter<'b>>);

/// A write error is a violation unless the writer has run out of space: once the cursor is
/// below the last row nothing can be written any more and the writers skip the rest of the
/// buffer, which may leave their UTF-8 decoder in the middle of a character (observed,
/// outside the property: the cells produced are the same).
fn check_write(res: std::io::Result<usize>, len: usize, out_of_space: bool) -> Result<(), String> {
    match res {
        Ok(n) if n == len => Ok(()),
        Ok(n) => Err(format!("write accepted {} of {} bytes", n, len)),
        Err(_) if out_of_space => Ok(()),
        Err(err) => Err(err.to_string()),
    }
}

impl WriterLike for Wrapped<'_, '_> {
    fn write_bytes(&mut self, bytes: &[u8]) -> Result<(), String> {
        let res = self.0.write(bytes);
        let full = self.0.parent().cursor().row >= self.0.parent().size().height;
        check_write(res, bytes.len(), full)
    }

    fn put(&mut self, cell: Cell) {
        self.0.parent().put_cell(cell);
    }

    fn face(&mut self, face: Face) {
        self.0.parent().set_face(face);
    }
}

struct WrappedTty<'a, 'b>(surf_n_term::render::TTYCellWriter<&'a mut surf_n_term::TerminalWriter<'b>>);

impl WriterLike for WrappedTty<'_, '_> {
    fn write_bytes(&mut self, bytes: &[u8]) -> Result<(), String> {
        let res = self.0.write(bytes);
        let full = self.0.parent().cursor().row >= self.0.parent().size().height;
        check_write(res, bytes.len(), full)
    }

    fn put(&mut self, cell: Cell) {
        self.0.parent().put_cell(cell);
    }

    fn face(&mut self, face: Face) {
        self.0.parent().set_face(face);
    }
}

fn describe(cell: &Cell) -> String {
    match cell.kind() {
        CellKind::Char(c) => format!("{:?}/{}", c, cell.face()),
        CellKind::Glyph(g) => format!("glyph{}x{}", g.size().height, g.size().width),
        CellKind::Image(i) => format!("image{}x{}", i.height(), i.width()),
    }
}

fn run(ctx: &Ctx, src: &mut Src) -> WorldResult {
    if src.chance(1, 3) {
        return run_text(ctx, src);
    }
    let spec = gen_view(src);
    let kind = *src.pick(&[WriterKind::Direct, WriterKind::Utf8, WriterKind::Tty]);
    let glyphs = src.chance(1, 2);
    let wraps = !src.chance(1, 3);
    let vctx = view_ctx(glyphs, *src.pick(&[Size::new(2, 2), Size::new(0, 0), Size::new(5, 3)]));
    let items = gen_items(src, ctx.tier, kind == WriterKind::Tty);
    // neighbouring byte items form one buffer: the "one piece" reference then really is one
    // write call per stretch of bytes (several escape sequences in a single write included)
    let items: Vec<Item> = {
        let mut merged: Vec<Item> = Vec::with_capacity(items.len());
        for item in items {
            match (merged.last_mut(), item) {
                (Some(Item::Bytes(head)), Item::Bytes(tail)) => head.extend_from_slice(&tail),
                (_, item) => merged.push(item),
            }
        }
        merged
    };
    src.log(|| format!("view {:?} writer={:?} glyphs={} wraps={}", spec, kind, glyphs, wraps));
    src.log(|| format!("items {:?}", items.iter().map(|i| match i {
        Item::Bytes(b) => format!("{:?}", String::from_utf8_lossy(b)),
        Item::Put(c) => format!("put({})", describe(c)),
        Item::SetFace(f) => format!("face({f})"),
    }).collect::<Vec<_>>()));
    src.sig(0x900 + spec.transposed as u64 * 4 + spec.nested.is_some() as u64 * 2 + wraps as u64);
    src.sig(0x910 + kind as u64 * 2 + glyphs as u64);
    for item in items.iter() {
        src.sig(match item {
            Item::Bytes(b) => 0x920 + (b.len().min(3) as u64) * 4 + b.contains(&b'\n') as u64 * 2 + b.iter().any(|x| *x >= 0x80) as u64,
            Item::Put(c) => match c.kind() {
                CellKind::Char(_) => 0x940,
                CellKind::Glyph(_) => 0x941,
                CellKind::Image(_) => 0x942,
            },
            Item::SetFace(_) => 0x950,
        });
    }
    let total: usize = items.iter().map(|i| if let Item::Bytes(b) = i { b.len() } else { 0 }).sum();
    // special byte positions: inside a UTF-8 character or escape sequence
    let mut all_bytes = Vec::new();
    for item in items.iter() {
        if let Item::Bytes(b) = item {
            all_bytes.extend_from_slice(b);
        }
    }
    let reference = write_all(&spec, &vctx, kind, wraps, &items, None).map_err(|e| Violation::new(P, "C09.write-error", "write-error", e))?;
    // ---- containment
    let mut index = 0;
    for r in 0..spec.canvas.height {
        for c in 0..spec.canvas.width {
            index += 1;
            let pos = Position::new(r, c);
            if !inside(&spec, pos) && reference.get(pos) != Some(&sentinel(index)) {
                return Err(Violation::new(
                    P,
                    "C09.containment",
                    format!("{:?}{}{}", kind, if spec.transposed { "+transposed" } else { "" }, if spec.nested.is_some() { "+nested" } else { "" }),
                    format!("cell (row {r}, col {c}) outside the view {:?} was modified: {}", spec, describe(reference.get(pos).unwrap())),
                ));
            }
        }
    }
    // ---- chunk independence
    let k = if ctx.tier == Tier::Quick { 3 } else { 6 };
    let mut schedules = vec![vec![1usize; total]];
    for _ in 0..k {
        schedules.push(cuts(src, total, true));
    }
    for schedule in schedules.iter() {
        src.sig(0x960 + schedule.len().min(15) as u64);
        let mut off = 0;
        for cut in schedule.iter() {
            off += cut;
            if off < all_bytes.len() && off > 0 {
                let b = all_bytes[off];
                let inside_utf8 = b & 0xC0 == 0x80;
                let inside_esc = all_bytes[..off].iter().rposition(|x| *x == 0x1b).map(|at| !all_bytes[at..off].contains(&b'm')).unwrap_or(false);
                if inside_utf8 {
                    src.nontrivial = true;
                    src.probe("cut-inside-utf8-character");
                }
                if inside_esc {
                    src.nontrivial = true;
                    src.probe("cut-inside-escape-sequence");
                }
            }
        }
        let got = write_all(&spec, &vctx, kind, wraps, &items, Some(schedule)).map_err(|e| Violation::new(P, "C09.write-error", "write-error", e))?;
        for r in 0..spec.canvas.height {
            for c in 0..spec.canvas.width {
                let pos = Position::new(r, c);
                if got.get(pos) != reference.get(pos) {
                    return Err(Violation::new(
                        P,
                        "C09.chunk-dependence",
                        format!("{:?}", kind),
                        format!(
                            "cell (row {r}, col {c}) is {} when written in one piece but {} when written in {} pieces {:?}",
                            describe(reference.get(pos).unwrap()),
                            describe(got.get(pos).unwrap()),
                            schedule.len(),
                            &schedule[..schedule.len().min(24)]
                        ),
                    ));
                }
            }
        }
    }
    Ok(())
}

// ---------------------------------------------------------------- Text: layout versus render

fn tag(idx: usize) -> Face {
    Face::new(Some(RGBA::new(77, (idx >> 8) as u8, idx as u8, 255)), None, FaceAttrs::EMPTY)
}

fn run_text(ctx: &Ctx, src: &mut Src) -> WorldResult {
    let glyphs = src.chance(1, 2);
    let ppc = *src.pick(&[Size::new(2, 2), Size::new(5, 3)]);
    let vctx = view_ctx(glyphs, ppc);
    let wraps = !src.chance(1, 3);
    let max_width = 1 + src.draw(12) as usize;
    let n = 1 + src.size(if ctx.tier == Tier::Quick { 20 } else { 60 }) as usize;
    let mut text = Text::new();
    text.set_wraps(wraps);
    // expected printable units in reading order: (tag index, kind)
    #[derive(Clone, Debug, PartialEq)]
    enum Unit {
        Char(char),
        Glyph,
        Image,
    }
    let mut units: Vec<(usize, Unit, usize)> = Vec::new(); // (tag, unit, width in cells)
    let mut layout_items: Vec<(Option<usize>, Cell)> = Vec::new();
    for _ in 0..n {
        let idx = units.len();
        let face = tag(idx);
        match src.draw(12) {
            0 => layout_items.push((None, Cell::new_char(Face::default(), '\n'))),
            1 => layout_items.push((None, Cell::new_char(Face::default(), '\t'))),
            2 => layout_items.push((None, Cell::new_char(Face::default(), '\u{200b}'))),
            3 | 4 => {
                let c = *src.pick(&['宽', '🤩']);
                units.push((idx, Unit::Char(c), 2));
                layout_items.push((Some(idx), Cell::new_char(face, c)));
            }
            5 => {
                let fallback = *src.pick(&["g", "gl", "宽"]);
                let size = Size::new(1 + src.draw(2) as usize, 1 + src.draw(3) as usize);
                let glyph = make_glyph(size.height, size.width, fallback);
                if glyphs {
                    units.push((idx, Unit::Glyph, size.width));
                    layout_items.push((Some(idx), Cell::new_glyph(face, glyph)));
                } else {
                    // fallback characters appear instead, all with this face
                    let mut first = true;
                    for c in fallback.chars() {
                        let idx = units.len();
                        units.push((idx, Unit::Char(c), c.width().unwrap_or(0)));
                        if first {
                            // the cell itself is laid out once; units are attributed by order
                            first = false;
                        }
                    }
                    layout_items.push((Some(idx), Cell::new_glyph(tag(idx), glyph)));
                }
            }
            6 => {
                let img = make_image(ppc.height * (1 + src.draw(2) as usize), ppc.width * (1 + src.draw(3) as usize));
                let width = img.size_cells(ppc).width;
                units.push((idx, Unit::Image, width));
                layout_items.push((Some(idx), Cell::new_image(img).with_face(face)));
            }
            _ => {
                let c = (b'a' + src.draw(26) as u8) as char;
                units.push((idx, Unit::Char(c), 1));
                layout_items.push((Some(idx), Cell::new_char(face, c)));
            }
        }
    }
    for (_, cell) in layout_items.iter() {
        src.sig(match cell.kind() {
            CellKind::Char(c) => 0x970 + c.width().unwrap_or(0) as u64 + (*c == '\n') as u64 * 4 + (*c == '\t') as u64 * 8,
            CellKind::Glyph(_) => 0x980,
            CellKind::Image(_) => 0x981,
        });
        text.put_cell(cell.clone());
    }
    src.sig(0x990 + max_width.min(12) as u64);
    src.log(|| format!("text wraps={} glyphs={} max_width={} cells={:?}", wraps, glyphs, max_width, layout_items.iter().map(|(_, c)| describe(c)).collect::<Vec<_>>()));
    src.sig(0xA00 + wraps as u64 * 2 + glyphs as u64);

    // layout with the given width and unbounded height
    let mut store = ViewLayoutStore::new();
    let mut layout = ViewMutLayout::new(&mut store, Layout::default());
    text.layout(&vctx, BoxConstraint::new(Size::empty(), Size::new(100_000, max_width)), layout.view_mut())
        .map_err(|e| Violation::new(P, "C09.text-error", "layout-error", format!("{e:?}")))?;
    let size = layout.size();
    if size.width > max_width {
        return Err(Violation::new(P, "C09.text-layout", "layout-wider-than-allowed", format!("layout reported width {} for maximum width {}", size.width, max_width)));
    }
    let mut surf: SurfaceOwned<Cell> = SurfaceOwned::new(size);
    text.render(&vctx, surf.as_mut(), layout.view()).map_err(|e| Violation::new(P, "C09.text-error", "render-error", format!("{e:?}")))?;

    // what is on the surface, in reading order
    let mut found: Vec<(usize, Unit)> = Vec::new();
    for r in 0..surf.height() {
        for c in 0..surf.width() {
            let cell = surf.get(Position::new(r, c)).unwrap();
            let face = cell.face();
            let Some(fg) = face.fg else { continue };
            let [red, hi, lo, _] = {
                use surf_n_term::Color;
                fg.to_rgba()
            };
            if red != 77 {
                continue;
            }
            let idx = ((hi as usize) << 8) | lo as usize;
            match cell.kind() {
                CellKind::Char(ch) => found.push((idx, Unit::Char(*ch))),
                CellKind::Glyph(_) => found.push((idx, Unit::Glyph)),
                CellKind::Image(_) => found.push((idx, Unit::Image)),
            }
        }
    }
    // expected: with wrapping everything; without wrapping the cells that fit on their line
    let mut expected: Vec<Unit> = Vec::new();
    {
        let mut col = 0usize;
        let mut unit_iter = units.iter();
        for (tagged, cell) in layout_items.iter() {
            match cell.kind() {
                CellKind::Char('\n') => col = 0,
                CellKind::Char('\t') => col += (8 - col % 8).min(max_width.saturating_sub(col)),
                CellKind::Char('\u{200b}') => {}
                _ => {
                    let _ = tagged;
                    // number of units this cell contributes
                    let count = match cell.kind() {
                        CellKind::Glyph(g) if !glyphs => g.fallback_str().chars().count(),
                        _ => 1,
                    };
                    for _ in 0..count {
                        let (_, unit, width) = unit_iter.next().expect("unit").clone();
                        if width == 0 {
                            continue;
                        }
                        if wraps {
                            expected.push(unit);
                        } else if col + width <= max_width {
                            col += width;
                            expected.push(unit);
                        } else {
                            src.probe("cell-dropped-beyond-right-edge");
                        }
                    }
                }
            }
        }
    }
    if size.height > 1 {
        src.nontrivial = true;
        src.probe("text-spans-several-rows");
    }
    let got: Vec<Unit> = found.iter().map(|(_, u)| u.clone()).collect();
    if got != expected {
        let missing = expected.len() as i64 - got.len() as i64;
        return Err(Violation::new(
            P,
            "C09.text-complete",
            format!("{}{}", if wraps { "wrap" } else { "nowrap" }, if missing > 0 { "+cells-missing" } else if missing < 0 { "+cells-extra" } else { "+order" }),
            format!(
                "text laid out to {}x{} (max width {}) rendered into a surface of that size shows {:?}, expected {:?}",
                size.height, size.width, max_width, got, expected
            ),
        ));
    }
    Ok(())
}
