//! World `tty` (C16 second half, C17): the real `UnixTerminal` on a simulated kernel tty.
//!
//! Real: UnixTerminal, TTYEncoder, TTYEventDecoder, IOQueue, image handlers, signal-hook
//! (registration, self-pipe, pending()), the waker socket pair.
//! Simulated: the tty device (bounded output buffer, input queue, termios, winsize,
//! O_NONBLOCK, hang-up, EIO), `select` (the scheduling point), the clock, the terminal
//! emulator at the other end, the user, threads holding a waker, signal arrival times.
use crate::core::{Ctx, Tier, Violation, World, WorldResult};
use crate::tape::Src;
use crate::worlds::queue::{stamp, History};
use rustix::event::{fd_set_insert, FdSetElement, FdSetIter};
use rustix::fs::OFlags;
use rustix::io::Errno;
use rustix::termios::{OptionalActions, Termios, Winsize};
use std::cell::RefCell;
use std::collections::{BTreeMap, VecDeque};
use std::io::Write;
use std::os::fd::{AsRawFd, OwnedFd, RawFd};
use std::panic::{catch_unwind, resume_unwind, AssertUnwindSafe};
use std::rc::Rc;
use std::time::Duration;
use surf_n_term::common::verif_clock;
use surf_n_term::encoder::{Encoder, TTYEncoder};
use surf_n_term::image::{DummyImageHandler, ImageHandlerKind};
use surf_n_term::{
    DecMode, Error, Face, Image, ImageHandler, KeyName, KittyImageHandler, Position, Shape, SixelImageHandler, Size, SystemTerminal, Terminal,
    TerminalCommand, TerminalEvent, TerminalWaker, RGBA,
};

mod full;
pub use full::world as full_world;

pub fn world() -> World {
    World {
        name: "tty",
        properties: &["C16", "C17"],
        run,
        real: &[
            "unix::UnixTerminal (new_from_fd, capabilities_detect, poll, execute, frames_pending/frames_drop, dispose/Drop)",
            "encoder::TTYEncoder",
            "decoder::TTYEventDecoder",
            "common::IOQueue",
            "image handlers as selected by capability detection",
            "signal-hook (real registration, real self-pipe, raise())",
            "waker socket pair (real UnixStream, real write(2))",
        ],
        stub: &[
            "kernel tty device behind sim/shim-rustix: bounded output buffer, input queue, termios, winsize, O_NONBLOCK, hang-up, EIO",
            "select(2): scheduling point of the discrete-event simulation, virtual clock",
            "terminal emulator peer (VT parser, mode state, query replies with latency, drain rate, stalls)",
            "user typing keys, threads calling the waker, signal arrival times (scheduler-placed raise())",
        ],
        assumptions: &[
            "simulated tty follows the contract unix.rs programs against: non-blocking partial writes, EAGAIN when full, level-triggered select, TCSAFLUSH discards unread input",
            "a waker call from another thread is exactly one write(2) on the waker socket ordered somewhere between the syscalls of the polling thread (no shared memory), so running it at a yield point covers every interleaving",
            "raise() delivers the signal synchronously to the only thread that matters; socket pairs deliver synchronously",
            "SURFNTERM is unset (process-wide LazyLock); TERM/COLORTERM are drawn per run",
            "frame delimiters are flush(), poll() and frames_drop(); the library's own size query written on SIGWINCH is filtered from the observed stream",
            "closing-sequence and complete-release clauses are demanded whenever the tty never failed, no stall or failure began during dispose, the output copy is not failing and at most three termination signals arrived during dispose - however slowly the terminal drains and whether or not it answers DA1",
            "a read of a readable non-blocking tty may fail with EAGAIN or EINTR (at most three times per run, the data stays); writev/readv are one write/read of the concatenation; tcsetattr(TCSAFLUSH) may fail once with EINTR during the release",
            "Error::Quit needs a cause: while the tty is alive there are never more quits than termination signals raised",
            "the escape key on its own is typed only as the last input of a session, and only when the known finding about it is not being avoided; Terminal::drain() likewise",
        ],
        rule: "one run = one session: construction against a drawn emulator personality, a drawn app script of write/execute/flush/poll(None|0|d|Duration::MAX)/drain/frames_pending/frames_drop/position/run, concurrent actor events (typed keys, waker calls, signals, emulator drains and replies, stalls, hang-up, EIO) placed by the tape, a drop point, then dispose; non-trivial = at least one fault fired or an actor event ran inside a poll; distinct = distinct hash of the (actor, action, result kind) sequence",
        runs: |prop, tier| match (prop, tier) {
            ("C16", Tier::Quick) => 100_000,
            ("C16", Tier::Thorough) => 4_000_000,
            (_, Tier::Quick) => 150_000,
            (_, Tier::Thorough) => 5_000_000,
        },
        features: &["terminal-stops-reading", "lone-escape", "app-uses-drain"],
    }
}

/// payload used to unwind out of a `select` that can never return
pub struct SimBlocked;

const US: u64 = 1_000;
const MS: u64 = 1_000_000;
const SEC: u64 = 1_000_000_000;
const GET_TERM_SIZE: &[u8] = b"\x1b[18t\x1b[14t";
/// what the user types: letters that occur in no reply of the emulator, so that a reply
/// torn apart by interleaved typing can not be mistaken for typed input
const TYPED: &[u8] = b"ABCDEFHIJLMNQSTUVWXYZ";
/// multi-byte characters used in pasted text (a read of the tty may end inside one)
const PASTED: [char; 3] = ['é', '宽', '🤩'];

fn typed_char(c: char) -> bool {
    (c.is_ascii() && TYPED.contains(&(c as u8))) || PASTED.contains(&c) || c == '\x1b'
}

#[derive(Clone, Debug, PartialEq, Eq)]
enum Ev {
    /// emulator takes bytes from the tty output buffer
    Drain,
    /// bytes become readable on the tty (reply of the emulator or typed by the user)
    Input(Vec<u8>, &'static str),
    /// another thread calls waker.wake()
    Wake,
    /// signal arrives (optionally preceded by a window size change)
    Signal(i32, bool),
    /// emulator stops draining until the given time
    Stall(u64),
    /// emulator stops reading for good (XOFF, a hung terminal, a stopped pager at the other end)
    Hang,
    /// peer hangs up
    Hangup,
    /// tty starts failing with EIO
    Eio,
    /// clock jump: nothing happens, time just moves
    Tick,
}

#[derive(Clone, Debug, Default)]
struct Modes {
    cursor_visible: bool,
    mouse_1000: bool,
    mouse_1003: bool,
    mouse_1006: bool,
    altscreen: bool,
    kbd_level: u32,
}

#[derive(Clone, Debug)]
struct Personality {
    da1: bool,
    sixel: bool,
    decrqss: bool,
    truecolor: bool,
    /// 0: answers both size queries, 1: neither, 2: only the pixel query (14t), 3: only the cell query (18t)
    size_report: u8,
    kbd: bool,
    osc11: bool,
    kitty: bool,
}

#[derive(Default)]
enum VtState {
    #[default]
    Ground,
    Esc,
    Csi(Vec<u8>),
    Str(u8, Vec<u8>),
    StrEsc(u8, Vec<u8>),
}

struct Faults {
    /// the emulator answers queries with out-of-range numbers (zeros, 2^16, 2^32) or twice
    mangle_reply: bool,
    short_write: bool,
    eagain: bool,
    short_read: bool,
    /// the debugging copy of the output (`duplicate_output`) goes to a device that is full
    tee_full: bool,
    /// the tcsetattr of the release is interrupted by a signal once
    tcsetattr_eintr: bool,
    /// a read of the readable tty now and then fails with EAGAIN or EINTR (another reader got
    /// there first; readiness was spurious; a signal handler ran)
    read_retry: bool,
    select_eintr: bool,
}

struct Kernel {
    src: Src,
    now: u64,
    seq: u64,
    events: BTreeMap<(u64, u64), Ev>,
    // tty device
    out_buf: VecDeque<u8>,
    out_cap: usize,
    in_queue: VecDeque<u8>,
    /// per byte of in_queue: typed by the user (as opposed to an answer of the emulator)
    in_origin: VecDeque<bool>,
    /// complete typed characters the library has read from the tty so far
    typed_chars_read: usize,
    utf8_pending: u8,
    /// `typed_chars_read` when the oldest wake request whose byte is still in the waker socket
    /// was made
    wake_floor: Option<usize>,
    /// one entry per read of the waker socket (= per Wake event queued by the library, in
    /// order): the floor of the oldest request that read consumed
    wake_batches: VecDeque<usize>,
    termios: Termios,
    termios_initial: Termios,
    winsize: Winsize,
    oflags: OFlags,
    hup: bool,
    eio: bool,
    /// post-mortem mode: every select fails immediately
    dead: bool,
    /// every byte ever accepted by the tty write
    written: Vec<u8>,
    /// emulator
    drain_scheduled: bool,
    drain_chunk: usize,
    drain_latency: u64,
    stalled_until: u64,
    /// the emulator has stopped reading for good
    hung: bool,
    /// selects in a row that reported the tty readable without a read of the tty in between
    readable_unread: u32,
    ignored_input: Option<String>,
    reply_latency: u64,
    vt: VtState,
    modes: Modes,
    person: Personality,
    received: usize,
    /// full-stack world: the emulator also keeps a screen (cells, cursor, current face)
    vscreen: Option<full::VScreen>,
    faults: Faults,
    // actors
    waker: Option<TerminalWaker>,
    signals_enabled: bool,
    /// signals raised from now on are owed to the application
    counting_signals: bool,
    /// termination signals are owed from the moment capability detection touches the tty (the
    /// signal pipe is registered before that): from the constructor's error or a later poll
    counting_quits: bool,
    constructing: bool,
    wakes_requested: u64,
    last_wake_seq: u64,
    winch_raised: u64,
    /// window-size changes (SIGWINCH with a new winsize) since signals are counted
    window_changes: u64,
    /// replies the emulator garbled (their content can not be held against the library)
    mangled_replies: u64,
    quit_raised: u64,
    read_retries: u32,
    tcsetattr_interrupted: bool,
    /// the user has pressed the escape key and nothing after it
    lone_escape: bool,
    /// the application has used `Terminal::drain` (an iterator of events: it cannot report errors)
    drain_used: bool,
    /// characters the user has typed so far (at delivery into the tty input queue)
    typed: Vec<char>,
    /// events that ran while the app was inside poll
    in_poll: bool,
    events_in_poll: u64,
    /// deadline of the application-level poll in progress (finite timeouts only)
    poll_deadline: Option<u64>,
    /// selects entered after that deadline that did not end with EINTR
    selects_past_deadline: u32,
    steps: u64,
    last_read_fds: Vec<RawFd>,
    tty_fd: RawFd,
    selects_blocked: u64,
    tcsetattr_calls: u64,
    /// terminal is being dropped; a stall/fault from now on excuses the closing sequence
    disposing: bool,
    trouble_in_dispose: bool,
    quits_in_dispose: u64,
}

type K = Rc<RefCell<Kernel>>;

/// Hook H6: the terminal thread is about to read the waker socket or the signal pipe. Other
/// threads may run here: time passes, due actor events happen, and (tape permitting) a wake
/// request that was scheduled for later is made right now - its time was arbitrary anyway.
pub(super) fn install_yield_hook(kernel: &K) {
    let kernel = kernel.clone();
    surf_n_term::common::verif_yield::set(Some(Box::new(move |name: &'static str| {
        let mut k = kernel.borrow_mut();
        k.tick();
        if k.src.chance(1, 4) {
            let key = k.events.iter().find(|(_, ev)| matches!(ev, Ev::Wake)).map(|(key, _)| *key);
            if let Some(key) = key {
                k.events.remove(&key);
                let now = k.now;
                k.seq += 1;
                let seq = k.seq;
                k.events.insert((now, seq), Ev::Wake);
                k.src.fault("wake-request-lands-between-readiness-and-read");
            }
        }
        k.src.sig_str(name);
        k.run_due();
        if name == "waker-read" {
            // the read that follows consumes every request made so far: one Wake event
            if let Some(floor) = k.wake_floor.take() {
                k.wake_batches.push_back(floor);
            }
        }
    })));
}

/// A Wake event is being handed to the application. Wake events come out in the order in which
/// the library read the waker socket; typed characters that it had already read from the tty
/// when the oldest request consumed by that read was made were queued before that wake
/// existed: they must have been delivered before it (events come out in arrival order).
/// Returns a description when that is not the case.
pub(super) fn wake_order_check(k: &mut Kernel, keys_delivered: usize) -> Option<String> {
    let floor = k.wake_batches.pop_front()?;
    if keys_delivered < floor {
        k.src.probe("wake-event-overtook-input");
        return Some(format!(
            "a Wake event was delivered after {keys_delivered} key events although the library had already read {floor} typed characters from the tty when the wake request was made"
        ));
    }
    None
}

fn cooked_termios() -> Termios {
    use rustix::termios::{ControlModes, InputModes, LocalModes, OutputModes};
    // Termios is plain old data (bit flags and an array of control characters)
    let mut t: Termios = unsafe { std::mem::zeroed() };
    t.input_modes = InputModes::ICRNL | InputModes::IXON | InputModes::BRKINT;
    t.output_modes = OutputModes::OPOST | OutputModes::ONLCR;
    t.control_modes = ControlModes::CS8 | ControlModes::CREAD;
    t.local_modes = LocalModes::ICANON | LocalModes::ECHO | LocalModes::ISIG | LocalModes::IEXTEN | LocalModes::ECHOE;
    t
}

fn termios_eq(a: &Termios, b: &Termios) -> bool {
    a.input_modes == b.input_modes && a.output_modes == b.output_modes && a.control_modes == b.control_modes && a.local_modes == b.local_modes
}

impl Kernel {
    fn schedule(&mut self, delay: u64, ev: Ev) {
        self.seq += 1;
        self.events.insert((self.now + delay, self.seq), ev);
    }

    fn tick(&mut self) {
        // every syscall costs a little (tape chosen) time so that actor events interleave at arbitrary points
        self.steps += 1;
        // (never zero: a loop that waits for the clock to pass a deadline must terminate)
        let cost = self.src.draw(4) as u64 * 5 * US + 1;
        self.now += cost;
        verif_clock::set(self.now);
    }

    fn next_event_time(&self) -> Option<u64> {
        self.events.keys().next().map(|k| k.0)
    }

    fn pop_due(&mut self) -> Option<Ev> {
        let key = *self.events.keys().next()?;
        if key.0 <= self.now {
            self.events.remove(&key)
        } else {
            None
        }
    }

    fn ensure_drain(&mut self) {
        if !self.drain_scheduled && !self.out_buf.is_empty() && !self.hung {
            self.drain_scheduled = true;
            let wait = self.drain_latency.max(self.stalled_until.saturating_sub(self.now));
            self.schedule(wait, Ev::Drain);
        }
    }

    fn reply(&mut self, mut bytes: Vec<u8>) {
        let latency = self.reply_latency;
        if self.faults.mangle_reply && self.src.chance(1, 6) {
            // a buggy or hostile emulator: same shape, numbers out of range, or the answer twice
            // (never bytes of the typed alphabet, never an unterminated sequence: what the user
            // types stays attributable)
            self.src.fault("emulator-reply-mangled");
            self.mangled_replies += 1;
            let mode = self.src.draw(4);
            if mode == 3 {
                let copy = bytes.clone();
                bytes.extend(copy);
            } else {
                let big: &[u8] = match mode {
                    0 => b"0",
                    1 => b"65536",
                    _ => b"4294967296",
                };
                let which = self.src.draw(4) as usize; // which run of digits (3 = all of them)
                let mut out = Vec::new();
                let mut run = 0usize;
                let mut i = 0;
                while i < bytes.len() {
                    if bytes[i].is_ascii_digit() {
                        let start = i;
                        while i < bytes.len() && bytes[i].is_ascii_digit() {
                            i += 1;
                        }
                        if which == 3 || which == run {
                            out.extend_from_slice(big);
                        } else {
                            out.extend_from_slice(&bytes[start..i]);
                        }
                        run += 1;
                    } else {
                        out.push(bytes[i]);
                        i += 1;
                    }
                }
                bytes = out;
            }
        }
        self.schedule(latency, Ev::Input(bytes, "emu-reply"));
    }

    /// emulator consumes one byte of app output
    fn emu_byte(&mut self, byte: u8) {
        self.received += 1;
        let state = std::mem::take(&mut self.vt);
        self.vt = match state {
            VtState::Ground => {
                if byte == 0x1b {
                    VtState::Esc
                } else {
                    if let Some(vs) = self.vscreen.as_mut() {
                        vs.ground(byte);
                    }
                    VtState::Ground
                }
            }
            VtState::Esc => match byte {
                b'[' => VtState::Csi(Vec::new()),
                b']' | b'P' | b'_' | b'^' | b'X' => VtState::Str(byte, Vec::new()),
                0x1b => VtState::Esc,
                _ => VtState::Ground,
            },
            VtState::Csi(mut buf) => {
                if (0x40..=0x7e).contains(&byte) {
                    self.emu_csi(&buf, byte);
                    VtState::Ground
                } else if byte == 0x1b {
                    VtState::Esc
                } else {
                    if buf.len() < 64 {
                        buf.push(byte);
                    }
                    VtState::Csi(buf)
                }
            }
            VtState::Str(kind, mut buf) => {
                if byte == 0x1b {
                    VtState::StrEsc(kind, buf)
                } else if byte == 0x07 && kind == b']' {
                    self.emu_str(kind, &buf);
                    VtState::Ground
                } else {
                    if buf.len() < 128 {
                        buf.push(byte);
                    }
                    VtState::Str(kind, buf)
                }
            }
            VtState::StrEsc(kind, buf) => {
                if byte == b'\\' {
                    self.emu_str(kind, &buf);
                    VtState::Ground
                } else if byte == b'[' {
                    VtState::Csi(Vec::new())
                } else {
                    VtState::Ground
                }
            }
        };
    }

    fn emu_csi(&mut self, params: &[u8], fin: u8) {
        let text = String::from_utf8_lossy(params).to_string();
        if let Some(vs) = self.vscreen.as_mut() {
            vs.csi(&text, fin);
        }
        match fin {
            b'h' | b'l' if text.starts_with('?') => {
                let on = fin == b'h';
                for mode in text[1..].split(';') {
                    match mode {
                        "25" => self.modes.cursor_visible = on,
                        "1000" => self.modes.mouse_1000 = on,
                        "1003" => self.modes.mouse_1003 = on,
                        "1006" => self.modes.mouse_1006 = on,
                        "1049" => self.modes.altscreen = on,
                        _ => {}
                    }
                }
            }
            b'c' if text.is_empty() || text == "0" => {
                if self.person.da1 {
                    let reply = if self.person.sixel { b"\x1b[?62;4;22c".to_vec() } else { b"\x1b[?62;22c".to_vec() };
                    self.reply(reply);
                }
            }
            b't' => {
                if self.person.size_report != 1 {
                    let ws = self.winsize;
                    if text == "18" && self.person.size_report != 2 {
                        self.reply(format!("\x1b[8;{};{}t", ws.ws_row, ws.ws_col).into_bytes());
                    } else if text == "14" && self.person.size_report != 3 {
                        let (h, w) = if ws.ws_ypixel == 0 { (ws.ws_row as u32 * 20, ws.ws_col as u32 * 10) } else { (ws.ws_ypixel as u32, ws.ws_xpixel as u32) };
                        self.reply(format!("\x1b[4;{};{}t", h, w).into_bytes());
                    }
                }
            }
            b'u' => {
                if text == "?" {
                    if self.person.kbd {
                        let level = self.modes.kbd_level;
                        self.reply(format!("\x1b[?{}u", level).into_bytes());
                    }
                } else if let Some(level) = text.strip_prefix('=') {
                    self.modes.kbd_level = level.parse().unwrap_or(0);
                }
            }
            b'n' if text == "6" => self.reply(b"\x1b[1;1R".to_vec()),
            _ => {}
        }
    }

    fn emu_str(&mut self, kind: u8, body: &[u8]) {
        match kind {
            b']' => {
                if body == b"11;?" && self.person.osc11 {
                    self.reply(b"\x1b]11;rgb:1c1c/1c1c/1c1c\x1b\\".to_vec());
                }
            }
            b'P' => {
                if body == b"$qm" && self.person.decrqss {
                    if self.person.truecolor {
                        self.reply(b"\x1bP1$r0;48:2::1:2:3m\x1b\\".to_vec());
                    } else {
                        self.reply(b"\x1bP1$r0m\x1b\\".to_vec());
                    }
                }
            }
            b'_' => {
                if body.starts_with(b"Ga=q") && self.person.kitty {
                    self.reply(b"\x1b_Gi=31;OK\x1b\\".to_vec());
                }
            }
            _ => {}
        }
    }

    /// Execute one actor event
    fn run_event(&mut self, ev: Ev) {
        if self.in_poll {
            self.events_in_poll += 1;
        }
        match ev {
            Ev::Drain => {
                self.drain_scheduled = false;
                if self.hung {
                    return;
                }
                if self.now < self.stalled_until {
                    self.ensure_drain();
                    return;
                }
                let n = self.drain_chunk.min(self.out_buf.len());
                for _ in 0..n {
                    let byte = self.out_buf.pop_front().unwrap();
                    self.emu_byte(byte);
                }
                self.src.sig(0xD0 + (n > 0) as u64);
                self.ensure_drain();
            }
            Ev::Input(bytes, who) => {
                self.src.sig_str(who);
                let now = self.now;
                self.src.log(|| format!("t={}us {}: {:?}", now / US, who, String::from_utf8_lossy(&bytes)));
                if who == "user" {
                    self.typed.extend(String::from_utf8_lossy(&bytes).chars());
                }
                self.in_origin.extend(std::iter::repeat(who == "user").take(bytes.len()));
                self.in_queue.extend(bytes);
            }
            Ev::Wake => {
                if let Some(waker) = self.waker.clone() {
                    let res = waker.wake();
                    if self.wake_floor.is_none() {
                        self.wake_floor = Some(self.typed_chars_read);
                    }
                    self.wakes_requested += 1;
                    self.last_wake_seq = self.steps;
                    self.src.sig_str("wake");
                    let now = self.now;
                    self.src.log(|| format!("t={}us thread: waker.wake() -> {:?}", now / US, res.is_ok()));
                }
            }
            Ev::Signal(sig, resize) => {
                if self.signals_enabled {
                    if resize {
                        self.winsize.ws_col = self.winsize.ws_col % 200 + 1;
                        self.winsize.ws_row = self.winsize.ws_row % 60 + 1;
                        if let Some(mut vs) = self.vscreen.take() {
                            // the window changes size: what it shows afterwards is up to the emulator
                            vs.resize(self.winsize, &mut self.src);
                            self.vscreen = Some(vs);
                        }
                    }
                    let now = self.now;
                    self.src.log(|| format!("t={}us raise({})", now / US, sig));
                    self.src.sig(0x5160 + sig as u64);
                    if sig != libc::SIGWINCH && self.counting_quits && !self.counting_signals {
                        // during capability detection
                        self.quit_raised += 1;
                        self.src.probe("termination-signal-during-detection");
                    } else if self.counting_signals {
                        if sig == libc::SIGWINCH {
                            self.winch_raised += 1;
                            if resize {
                                self.window_changes += 1;
                            }
                        } else {
                            self.quit_raised += 1;
                            if self.disposing {
                                self.quits_in_dispose += 1;
                            }
                        }
                    } else {
                        self.src.probe("signal-during-construction");
                    }
                    unsafe { libc::raise(sig) };
                }
            }
            Ev::Stall(until) => {
                if self.disposing {
                    self.trouble_in_dispose = true;
                }
                self.stalled_until = self.stalled_until.max(until);
                self.src.fault("emulator-stall");
                self.src.sig_str("stall");
            }
            Ev::Hang => {
                if self.disposing {
                    self.trouble_in_dispose = true;
                }
                self.hung = true;
                self.src.fault("emulator-stops-reading-for-ever");
                self.src.sig_str("hang");
            }
            Ev::Hangup => {
                if self.disposing {
                    self.trouble_in_dispose = true;
                }
                self.hup = true;
                self.src.fault("tty-hangup");
                self.src.sig_str("hup");
            }
            Ev::Eio => {
                if self.disposing {
                    self.trouble_in_dispose = true;
                }
                self.eio = true;
                self.src.fault("tty-eio");
                self.src.sig_str("eio");
            }
            Ev::Tick => {
                self.src.fault("clock-jump");
            }
        }
    }

    fn run_due(&mut self) {
        let mut guard = 0;
        while let Some(ev) = self.pop_due() {
            self.run_event(ev);
            guard += 1;
            if guard > 10_000 {
                break;
            }
        }
    }

    fn tty_readable(&self) -> bool {
        !self.in_queue.is_empty() || self.hup
    }

    fn tty_writable(&self) -> bool {
        self.eio || self.hup || self.out_buf.len() < self.out_cap
    }
}

struct HooksImpl(K);

fn real_readable(fd: RawFd) -> bool {
    let mut pfd = libc::pollfd { fd, events: libc::POLLIN, revents: 0 };
    let rc = unsafe { libc::poll(&mut pfd, 1, 0) };
    rc > 0 && (pfd.revents & (libc::POLLIN | libc::POLLHUP)) != 0
}

impl rustix::sim::Hooks for HooksImpl {
    fn read(&mut self, buf: &mut [u8]) -> rustix::io::Result<usize> {
        let mut k = self.0.borrow_mut();
        k.readable_unread = 0;
        k.tick();
        k.run_due();
        if k.in_queue.is_empty() {
            if k.hup {
                k.src.sig_str("read:eof");
                return Ok(0);
            }
            k.src.sig_str("read:again");
            return Err(Errno::AGAIN);
        }
        if k.faults.read_retry && k.read_retries < 3 && k.src.chance(1, 6) {
            // legal for a non-blocking descriptor that select reported readable; the data is
            // still there and the next select reports it again
            k.read_retries += 1;
            k.src.fault("tty-read-fails-although-readable");
            let again = k.src.chance(1, 2);
            k.src.sig_str(if again { "read:spurious-again" } else { "read:eintr" });
            let now = k.now;
            k.src.log(|| format!("t={}us   sys: read(tty) -> {}", now / US, if again { "EAGAIN" } else { "EINTR" }));
            return Err(if again { Errno::AGAIN } else { Errno::INTR });
        }
        let mut n = buf.len().min(k.in_queue.len());
        if k.faults.short_read && n > 1 && k.src.chance(1, 2) {
            n = 1 + k.src.draw(n as u32 - 1) as usize;
            k.src.fault("tty-short-read");
        }
        for slot in buf[..n].iter_mut() {
            let byte = k.in_queue.pop_front().unwrap();
            *slot = byte;
            if k.in_origin.pop_front().unwrap_or(false) {
                // count typed characters once their last byte has been read
                if k.utf8_pending > 0 && byte & 0xc0 == 0x80 {
                    k.utf8_pending -= 1;
                } else {
                    k.utf8_pending = match byte {
                        0xc0..=0xdf => 1,
                        0xe0..=0xef => 2,
                        0xf0..=0xf7 => 3,
                        _ => 0,
                    };
                }
                if k.utf8_pending == 0 {
                    k.typed_chars_read += 1;
                }
            }
        }
        k.src.sig(0x4ead0 + n.min(3) as u64);
        let now = k.now;
        k.src.log(|| format!("t={}us   sys: read(tty) -> {} bytes", now / US, n));
        Ok(n)
    }

    fn write(&mut self, buf: &[u8]) -> rustix::io::Result<usize> {
        let mut k = self.0.borrow_mut();
        k.tick();
        k.run_due();
        if k.eio || k.hup {
            k.src.sig_str("write:eio");
            return Err(Errno::IO);
        }
        let space = k.out_cap.saturating_sub(k.out_buf.len());
        if space == 0 || buf.is_empty() {
            if buf.is_empty() {
                return Ok(0);
            }
            k.src.sig_str("write:full");
            k.src.probe("write-on-full-buffer");
            return Err(Errno::AGAIN);
        }
        if k.faults.eagain && k.src.chance(1, 6) {
            k.src.fault("tty-eagain-although-writable");
            k.src.sig_str("write:again");
            return Err(Errno::AGAIN);
        }
        let mut n = buf.len().min(space);
        if k.faults.short_write && n > 1 && k.src.chance(1, 3) {
            n = 1 + k.src.draw(n as u32 - 1) as usize;
            k.src.fault("tty-short-write");
        }
        if n < buf.len() {
            k.src.probe("partial-write-of-front-chunk");
        }
        k.out_buf.extend(&buf[..n]);
        k.written.extend_from_slice(&buf[..n]);
        k.src.sig(0x3417e0 + (n < buf.len()) as u64);
        let now = k.now;
        k.src.log(|| format!("t={}us   sys: write(tty, {} bytes) -> {}", now / US, buf.len(), n));
        k.ensure_drain();
        Ok(n)
    }

    fn select(
        &mut self,
        _nfds: i32,
        readfds: Option<&mut [FdSetElement]>,
        writefds: Option<&mut [FdSetElement]>,
        timeout: Option<Duration>,
    ) -> rustix::io::Result<i32> {
        let mut k = self.0.borrow_mut();
        let tty = k.tty_fd;
        let read_fds: Vec<RawFd> = readfds.as_ref().map(|s| FdSetIter::new(s).collect()).unwrap_or_default();
        let write_fds: Vec<RawFd> = writefds.as_ref().map(|s| FdSetIter::new(s).collect()).unwrap_or_default();
        k.last_read_fds = read_fds.clone();
        if k.constructing && !k.counting_quits {
            // first poll of capability detection: the signal pipe is registered by now
            k.counting_quits = true;
        }
        k.tick();
        let past_deadline = k.in_poll && k.poll_deadline.is_some_and(|d| k.now > d);
        if past_deadline {
            k.selects_past_deadline += 1;
        }
        if k.dead {
            return Err(Errno::IO);
        }
        if k.steps > 60_000 {
            // run budget exhausted: the tty dies, session ends
            k.dead = true;
            k.eio = true;
            k.src.probe("step-budget-exhausted");
            return Err(Errno::IO);
        }
        let deadline = timeout.map(|d| k.now.saturating_add(d.as_nanos().min(u64::MAX as u128) as u64));
        let mut eintr_budget = 2;
        loop {
            k.run_due();
            let mut ready_r: Vec<RawFd> = Vec::new();
            let mut ready_w: Vec<RawFd> = Vec::new();
            for fd in read_fds.iter() {
                if *fd == tty {
                    if k.tty_readable() {
                        ready_r.push(*fd);
                    }
                } else if real_readable(*fd) {
                    ready_r.push(*fd);
                }
            }
            for fd in write_fds.iter() {
                if *fd == tty && k.tty_writable() {
                    ready_w.push(*fd);
                }
            }
            if k.faults.select_eintr && eintr_budget > 0 && k.src.chance(1, 8) {
                eintr_budget -= 1;
                k.src.fault("select-eintr");
                k.src.sig_str("select:eintr");
                if past_deadline {
                    k.selects_past_deadline -= 1;
                }
                return Err(Errno::INTR);
            }
            if !ready_r.is_empty() || !ready_w.is_empty() {
                if let Some(set) = readfds {
                    set.fill(FdSetElement::default());
                    for fd in ready_r.iter() {
                        fd_set_insert(set, *fd);
                    }
                }
                if let Some(set) = writefds {
                    set.fill(FdSetElement::default());
                    for fd in ready_w.iter() {
                        fd_set_insert(set, *fd);
                    }
                }
                if ready_r.contains(&tty) {
                    // level triggered: whoever is told that the tty is readable and does not
                    // read it will be told again; a caller that keeps going round like that
                    // (while it writes output, say) starves the input
                    k.readable_unread += 1;
                    if k.readable_unread > 8 && k.ignored_input.is_none() {
                        k.src.probe("tty-readable-reported-but-not-read");
                        k.ignored_input = Some(format!("select reported the tty readable {} times in a row (writable as well: {}) and the tty was not read in between", k.readable_unread, ready_w.contains(&tty)));
                    }
                }
                k.src.sig(0x5e1ec0 + ready_r.len() as u64 * 4 + ready_w.len() as u64);
                let now = k.now;
                k.src.log(|| format!("t={}us   sys: select(timeout={:?}) -> readable {:?} writable {:?} (tty fd {})", now / US, timeout, ready_r, ready_w, tty));
                return Ok((ready_r.len() + ready_w.len()) as i32);
            }
            // nothing ready: advance time
            let next = k.next_event_time();
            match (next, deadline) {
                (Some(next), Some(deadline)) if next <= deadline => {
                    k.now = k.now.max(next);
                }
                (Some(next), None) => {
                    k.now = k.now.max(next);
                }
                (_, Some(deadline)) => {
                    k.now = k.now.max(deadline);
                    verif_clock::set(k.now);
                    if let Some(set) = readfds {
                        set.fill(FdSetElement::default());
                    }
                    if let Some(set) = writefds {
                        set.fill(FdSetElement::default());
                    }
                    k.src.sig_str("select:timeout");
                    let now = k.now;
                    k.src.log(|| format!("t={}us   sys: select(timeout={:?}) -> timed out", now / US, timeout));
                    return Ok(0);
                }
                (None, None) => {
                    // nothing can ever wake this select up
                    k.selects_blocked += 1;
                    k.src.sig_str("select:blocked");
                    drop(k);
                    resume_unwind(Box::new(SimBlocked));
                }
            }
            verif_clock::set(k.now);
        }
    }

    fn isatty(&mut self) -> bool {
        true
    }

    fn tcgetattr(&mut self) -> rustix::io::Result<Termios> {
        let k = self.0.borrow();
        Ok(k.termios.clone())
    }

    fn tcsetattr(&mut self, actions: OptionalActions, termios: &Termios) -> rustix::io::Result<()> {
        let mut k = self.0.borrow_mut();
        if k.faults.tcsetattr_eintr && k.disposing && !k.tcsetattr_interrupted && !matches!(actions, OptionalActions::Now) {
            // TCSADRAIN/TCSAFLUSH wait for the output to drain: a signal whose handler was
            // installed without SA_RESTART interrupts that wait; nothing has been changed
            k.tcsetattr_interrupted = true;
            k.src.fault("tcsetattr-interrupted");
            k.src.sig_str("tcsetattr:eintr");
            let now = k.now;
            k.src.log(|| format!("t={}us   sys: tcsetattr -> EINTR", now / US));
            return Err(Errno::INTR);
        }
        k.tcsetattr_calls += 1;
        k.termios = termios.clone();
        if matches!(actions, OptionalActions::Flush) {
            // TCSAFLUSH: discard input that has been received but not read
            k.in_queue.clear();
            k.in_origin.clear();
        }
        Ok(())
    }

    fn tcgetwinsize(&mut self) -> rustix::io::Result<Winsize> {
        let k = self.0.borrow();
        Ok(k.winsize)
    }

    fn getfl(&mut self) -> rustix::io::Result<OFlags> {
        Ok(self.0.borrow().oflags)
    }

    fn setfl(&mut self, flags: OFlags) -> rustix::io::Result<()> {
        self.0.borrow_mut().oflags = flags;
        Ok(())
    }
}

/// Drain events until nothing is left: every scheduled actor event has happened, the tty has no
/// unread input and (unless the tty failed or the peer is stalled) the write queue is empty.
/// Returns true when the boundary is clean (queue drained, nothing pending).
fn drain_to_boundary(app: &mut App, kernel: &K) -> bool {
    let mut rounds = 0;
    loop {
        rounds += 1;
        if rounds > 3000 {
            return false;
        }
        // let all scheduled actor events happen first (wait for them with a finite timeout)
        let timeout = {
            let k = kernel.borrow();
            let next = k.next_event_time();
            match next {
                Some(t) => Some(Duration::from_nanos(t.saturating_sub(k.now) + 10 * MS)),
                None => Some(Duration::from_millis(50)),
            }
        };
        match app.poll(timeout) {
            Polled::Event(None) => {
                let k = kernel.borrow();
                let idle = k.events.is_empty() && k.in_queue.is_empty();
                let queue_empty = app.term.as_ref().unwrap().frames_pending() == 0;
                if idle && (queue_empty || k.eio || k.hup || k.hung || k.now < k.stalled_until) {
                    // (bytes a hung emulator will never read are still in flight)
                    return queue_empty && !k.eio && !k.hup && !(k.hung && !k.out_buf.is_empty());
                }
                if idle && !queue_empty && k.out_buf.is_empty() && k.now >= k.stalled_until && !k.hung {
                    // nothing scheduled, tty writable, yet output is stuck in the queue
                    return false;
                }
            }
            Polled::Event(Some(_)) => {}
            Polled::Quit => {
                // application would normally stop here; keep draining
                if app.quit_seen > 8 {
                    return false;
                }
            }
            Polled::Failed(_) | Polled::Blocked => return false,
        }
    }
}

/// Call into the terminal; a `select` that can never return unwinds with `SimBlocked`
fn guarded<R>(f: impl FnOnce() -> R) -> Result<R, ()> {
    match catch_unwind(AssertUnwindSafe(f)) {
        Ok(r) => Ok(r),
        Err(payload) => {
            if payload.downcast_ref::<SimBlocked>().is_some() {
                Err(())
            } else {
                resume_unwind(payload)
            }
        }
    }
}

fn run(ctx: &Ctx, src: &mut Src) -> WorldResult {
    // the kernel owns the tape for the duration of the run
    let mut live = Src::replay(Vec::new());
    std::mem::swap(src, &mut live);
    let kernel: K = Rc::new(RefCell::new(new_kernel(live)));
    let result = catch_unwind(AssertUnwindSafe(|| session(ctx, &kernel)));
    rustix::sim::uninstall();
    surf_n_term::common::verif_yield::set(None);
    {
        let mut k = kernel.borrow_mut();
        k.waker = None;
        let steps = k.steps;
        let now = k.now;
        k.src.sim_ns = now;
        k.src.steps += steps;
        std::mem::swap(src, &mut k.src);
    }
    let (lone_escape, drain_used) = {
        let k = kernel.borrow();
        (k.lone_escape, k.drain_used)
    };
    match result {
        // whatever goes wrong after a lone escape key is filed under it
        Ok(r) => r.map_err(|mut v| {
            if lone_escape {
                v.signature.push_str("+lone-escape");
            }
            if drain_used && v.signature.starts_with("termination-signal-not-reported") {
                v.signature.push_str("+app-uses-drain");
            }
            v
        }),
        Err(payload) => resume_unwind(payload),
    }
}

fn new_kernel(mut src: Src) -> Kernel {
    // configuration: 0 is always the plainest choice
    let out_cap = *src.pick(&[4096usize, 256, 64, 16]);
    let person = Personality {
        da1: !src.chance(1, 10),
        sixel: src.chance(1, 4),
        decrqss: !src.chance(1, 3),
        truecolor: !src.chance(1, 3),
        size_report: if src.chance(1, 3) { 1 + src.draw(3) as u8 } else { 0 },
        kbd: src.chance(1, 2),
        osc11: !src.chance(1, 3),
        kitty: src.chance(1, 3),
    };
    let faults_on = src.chance(3, 4);
    let faults = Faults {
        mangle_reply: faults_on && src.chance(1, 4),
        short_write: faults_on && src.chance(1, 2),
        eagain: faults_on && src.chance(1, 3),
        short_read: faults_on && src.chance(1, 2),
        read_retry: faults_on && src.chance(1, 4),
        tee_full: faults_on && src.chance(1, 16),
        tcsetattr_eintr: faults_on && src.chance(1, 8),
        select_eintr: faults_on && src.chance(1, 3),
    };
    let drain_chunk = *src.pick(&[1 << 20, 4096usize, 64, 7, 1]);
    let drain_latency = *src.pick(&[20 * US, 1 * US, 500 * US, 5 * MS]);
    let reply_latency = *src.pick(&[100 * US, 1 * US, 3 * MS, 40 * MS]);
    let pixels = src.chance(2, 3);
    let (rows, cols) = *src.pick(&[(24u16, 80u16), (5, 10), (1, 1), (50, 200)]);
    let termios = cooked_termios();
    Kernel {
        src,
        now: 0,
        seq: 0,
        events: BTreeMap::new(),
        out_buf: VecDeque::new(),
        out_cap,
        in_queue: VecDeque::new(),
        in_origin: VecDeque::new(),
        typed_chars_read: 0,
        utf8_pending: 0,
        wake_floor: None,
        wake_batches: VecDeque::new(),
        termios: termios.clone(),
        termios_initial: termios,
        winsize: Winsize { ws_row: rows, ws_col: cols, ws_xpixel: if pixels { cols * 10 } else { 0 }, ws_ypixel: if pixels { rows * 20 } else { 0 } },
        oflags: OFlags::RDWR,
        hup: false,
        eio: false,
        dead: false,
        written: Vec::new(),
        drain_scheduled: false,
        drain_chunk,
        drain_latency,
        stalled_until: 0,
        hung: false,
        readable_unread: 0,
        ignored_input: None,
        reply_latency,
        vt: VtState::Ground,
        modes: Modes { cursor_visible: true, ..Default::default() },
        person,
        received: 0,
        vscreen: None,
        faults,
        waker: None,
        signals_enabled: false,
        counting_signals: false,
        counting_quits: false,
        constructing: false,
        wakes_requested: 0,
        last_wake_seq: 0,
        winch_raised: 0,
        window_changes: 0,
        mangled_replies: 0,
        quit_raised: 0,
        read_retries: 0,
        tcsetattr_interrupted: false,
        lone_escape: false,
        drain_used: false,
        typed: Vec::new(),
        in_poll: false,
        events_in_poll: 0,
        poll_deadline: None,
        selects_past_deadline: 0,
        steps: 0,
        last_read_fds: Vec::new(),
        tty_fd: -1,
        selects_blocked: 0,
        tcsetattr_calls: 0,
        disposing: false,
        trouble_in_dispose: false,
        quits_in_dispose: 0,
    }
}

#[derive(Debug)]
enum Polled {
    Event(Option<TerminalEvent>),
    Quit,
    Failed(String),
    Blocked,
}

struct App {
    term: Option<SystemTerminal>,
    k: K,
    history: History,
    /// expected output stream (what was written/executed on the terminal object)
    expected: Vec<u8>,
    /// offset in kernel.written where the history starts
    base: usize,
    encoder: TTYEncoder,
    keys: Vec<char>,
    wakes_seen: u64,
    resizes_seen: u64,
    /// size carried by the last Resize event
    last_resize: Option<surf_n_term::TerminalSize>,
    quit_seen: u64,
    failed: bool,
    blocked: bool,
    blocked_excused: bool,
    /// steps counter at the time of the last Wake / Resize event delivery
    last_wake_event_step: u64,
    /// a poll with a finite timeout kept looping after its deadline and then delivered an event
    overstay: Option<String>,
    spurious_quit: Option<String>,
    /// a Wake event overtook typed input the library had read before the wake was requested
    overtaken: Option<String>,
    /// counters at the last clean boundary (start of the current epoch)
    epoch: Epoch,
    epochs: u64,
    /// a handler passed to Terminal::run returned an error: the application leaves
    handler_error: bool,
}

#[derive(Default, Clone, Copy)]
struct Epoch {
    window_changes: u64,
    wakes_requested: u64,
    wakes_seen: u64,
    winch_raised: u64,
    resizes_seen: u64,
    quit_raised: u64,
    quit_seen: u64,
    typed: usize,
    keys: usize,
}

impl App {
    /// bookkeeping for one event handed to the application (by poll or by drain)
    fn note_event(&mut self, k: &K, event: &Option<TerminalEvent>) {
                match event {
                    Some(TerminalEvent::Key(key)) => {
                        if let KeyName::Char(c) = key.name {
                            if key.mode.is_empty() && typed_char(c) {
                                self.keys.push(c);
                            }
                        } else if key.name == KeyName::Esc && key.mode.is_empty() {
                            self.keys.push('\x1b');
                        }
                    }
                    Some(TerminalEvent::Wake) => {
                        self.wakes_seen += 1;
                        self.last_wake_event_step = k.borrow().steps;
                        if let Some(msg) = wake_order_check(&mut k.borrow_mut(), self.keys.len()) {
                            self.overtaken.get_or_insert(msg);
                        }
                    }
                    Some(TerminalEvent::Resize(size)) => {
                        self.resizes_seen += 1;
                        self.last_resize = Some(*size);
                    }
                    _ => {}
                }
    }

    /// `Terminal::drain`: everything that polls with a zero timeout hand out, as an iterator
    fn drain(&mut self) {
        let k = self.k.clone();
        {
            let mut kk = k.borrow_mut();
            kk.in_poll = true;
            kk.poll_deadline = None;
            kk.selects_past_deadline = 0;
            kk.drain_used = true;
        }
        self.history.on_flush();
        let term = self.term.as_mut().expect("terminal");
        let res = guarded(|| term.drain().collect::<Vec<_>>());
        k.borrow_mut().in_poll = false;
        match res {
            Err(()) => self.blocked = true,
            Ok(events) => {
                let count = events.len();
                for event in events {
                    self.note_event(&k, &Some(event));
                }
                let mut kk = k.borrow_mut();
                let now = kk.now;
                kk.src.log(|| format!("t={}us app: drain() -> {} events", now / US, count));
                kk.src.sig(0xA900 + count.min(3) as u64);
            }
        }
    }

    fn poll(&mut self, timeout: Option<Duration>) -> Polled {
        let k = self.k.clone();
        {
            let mut kk = k.borrow_mut();
            kk.in_poll = true;
            kk.poll_deadline = timeout.map(|t| kk.now.saturating_add(t.as_nanos().min(u64::MAX as u128) as u64));
            kk.selects_past_deadline = 0;
        }
        self.history.on_flush();
        let term = self.term.as_mut().expect("terminal");
        let res = guarded(|| term.poll(timeout));
        let overstayed = {
            let mut kk = k.borrow_mut();
            kk.in_poll = false;
            kk.poll_deadline = None;
            kk.selects_past_deadline
        };
        let polled = match res {
            Err(()) => {
                self.blocked = true;
                Polled::Blocked
            }
            Ok(Ok(event)) => {
                self.note_event(&k, &event);
                Polled::Event(event)
            }
            Ok(Err(Error::Quit)) => {
                self.quit_seen += 1;
                Polled::Quit
            }
            Ok(Err(err)) => {
                self.failed = true;
                Polled::Failed(format!("{:?}", err))
            }
        };
        let mut kk = k.borrow_mut();
        let now = kk.now;
        kk.src.log(|| format!("t={}us app: poll({:?}) -> {:?}", now / US, timeout, polled));
        // Error::Quit means a termination signal or a hung-up terminal, nothing else: signals
        // may coalesce, so there are never more quits than signals while the tty is alive
        if matches!(polled, Polled::Quit) && !kk.hup && !kk.eio && !kk.dead && self.quit_seen > kk.quit_raised && self.spurious_quit.is_none() {
            self.spurious_quit = Some(format!(
                "poll({:?}) returned Error::Quit for the {}. time; {} termination signals had been raised, the tty had not hung up and no descriptor had failed",
                timeout, self.quit_seen, kk.quit_raised
            ));
        }
        // the loop of a poll with a finite timeout runs at most once more after the deadline; a
        // poll that keeps going round while it already holds an event starves that event for as
        // long as whatever keeps it looping (pending output, a slow terminal) lasts
        if overstayed > 2 && matches!(polled, Polled::Event(Some(_)) | Polled::Quit) && self.overstay.is_none() {
            kk.src.probe("poll-overstayed");
            self.overstay = Some(format!(
                "poll({:?}) entered select {} more times after its deadline had passed (EINTR not counted) before it returned {:?}",
                timeout, overstayed, polled
            ));
        }
        kk.src.sig_str(match &polled {
            Polled::Event(Some(TerminalEvent::Key(_))) => "poll:key",
            Polled::Event(Some(TerminalEvent::Wake)) => "poll:wake",
            Polled::Event(Some(TerminalEvent::Resize(_))) => "poll:resize",
            Polled::Event(Some(_)) => "poll:other",
            Polled::Event(None) => "poll:none",
            Polled::Quit => "poll:quit",
            Polled::Failed(_) => "poll:failed",
            Polled::Blocked => "poll:blocked",
        });
        polled
    }

    /// A clean boundary has been reached (nothing scheduled, nothing queued anywhere): whatever
    /// was requested since the previous clean boundary must have been delivered by now. Since
    /// the epoch started with empty queues, every event seen in it belongs to it.
    fn epoch_check(&mut self, kernel: &K, which: &str) -> WorldResult {
        let k = kernel.borrow();
        let now = Epoch {
            window_changes: k.window_changes,
            wakes_requested: k.wakes_requested,
            wakes_seen: self.wakes_seen,
            winch_raised: k.winch_raised,
            resizes_seen: self.resizes_seen,
            quit_raised: k.quit_raised,
            quit_seen: self.quit_seen,
            typed: k.typed.len(),
            keys: self.keys.len(),
        };
        let start = self.epoch;
        self.epoch = now;
        self.epochs += 1;
        if now.wakes_requested > start.wakes_requested && now.wakes_seen == start.wakes_seen {
            return Err(violation(
                "C17",
                "C17.lost-wakeup",
                "wake-request-without-wake-event",
                format!("{} wake requests between two clean boundaries ({which}) but no Wake event was delivered", now.wakes_requested - start.wakes_requested),
            ));
        }
        if now.quit_raised > start.quit_raised && now.quit_seen == start.quit_seen {
            return Err(violation(
                "C17",
                "C17.signal",
                "termination-signal-not-reported",
                format!("{} termination signals raised between two clean boundaries ({which}), poll never returned Error::Quit", now.quit_raised - start.quit_raised),
            ));
        }
        let ioctl_size = k.winsize.ws_xpixel != 0 && k.winsize.ws_ypixel != 0;
        if ioctl_size && now.winch_raised > start.winch_raised && now.resizes_seen == start.resizes_seen {
            return Err(violation(
                "C17",
                "C17.signal",
                "sigwinch-without-resize",
                format!("{} SIGWINCH raised between two clean boundaries ({which}), no Resize event delivered", now.winch_raised - start.winch_raised),
            ));
        }
        // the window changed size in this epoch: at a clean boundary (every answer delivered,
        // nothing in flight) the application must have been told the size the window has now,
        // and the terminal object must report it - whichever size interface is in use
        if now.window_changes > start.window_changes && k.mangled_replies == 0 {
            let cells = (k.winsize.ws_row as usize, k.winsize.ws_col as usize);
            let told = self.last_resize.map(|s| (s.cells.height, s.cells.width));
            let reported = self.term.as_ref().and_then(|t| t.size().ok()).map(|s| (s.cells.height, s.cells.width));
            if told != Some(cells) || reported != Some(cells) {
                return Err(violation(
                    "C17",
                    "C17.signal",
                    "window-size-change-not-delivered",
                    format!(
                        "the window changed size {} time(s) between two clean boundaries ({which}) and is {}x{} now, but the last Resize event said {:?} and size() reports {:?}",
                        now.window_changes - start.window_changes,
                        cells.0,
                        cells.1,
                        told,
                        reported
                    ),
                ));
            }
        }
        // ... and with or without a change, with nothing in flight the terminal object reports
        // the size the window has (answers to the size queries of detection may have arrived
        // one at a time, late, or not at all)
        if k.mangled_replies == 0 {
            let cells = (k.winsize.ws_row as usize, k.winsize.ws_col as usize);
            let reported = self.term.as_ref().and_then(|t| t.size().ok()).map(|s| (s.cells.height, s.cells.width));
            if reported.is_some() && reported != Some(cells) {
                return Err(violation(
                    "C17",
                    "C17.signal",
                    "size-reported-differs-from-window",
                    format!("at a clean boundary ({which}) the window is {}x{} cells but size() reports {:?}", cells.0, cells.1, reported),
                ));
            }
        }
        let typed: Vec<char> = k.typed[start.typed..].to_vec();
        let keys: Vec<char> = self.keys[start.keys..].to_vec();
        if typed != keys {
            return Err(violation(
                "C17",
                "C17.input-order",
                if keys.len() < typed.len() { "typed-input-lost" } else { "typed-input-reordered-or-duplicated" },
                format!("between two clean boundaries ({which}) the user typed {:?} but key events were {:?}", typed.iter().collect::<String>(), keys.iter().collect::<String>()),
            ));
        }
        Ok(())
    }

    /// drop call: remember how many raw bytes the tty had accepted at that moment
    fn history_drop(&mut self) {
        self.history.on_drop();
        let raw = self.k.borrow().written.len() - self.base;
        if let Some(last) = self.history.drops.last_mut() {
            last.2 = raw;
        }
    }
}

fn violation(prop: &str, kind: &str, signature: &str, detail: String) -> Violation {
    Violation::new(prop, kind, signature, detail)
}

fn session(ctx: &Ctx, kernel: &K) -> WorldResult {
    let prop = ctx.prop.as_str();
    // environment seen by capability detection (drawn per run)
    {
        let mut k = kernel.borrow_mut();
        let term = *k.src.pick(&["xterm-256color", "dumb", "linux", "xterm-kitty"]);
        let colorterm = *k.src.pick(&["", "truecolor"]);
        std::env::set_var("TERM", term);
        if colorterm.is_empty() {
            std::env::remove_var("COLORTERM");
        } else {
            std::env::set_var("COLORTERM", colorterm);
        }
        k.src.log(|| format!("env TERM={term} COLORTERM={colorterm}"));
        verif_clock::set(0);
    }
    // the tty handle is a real descriptor (so OwnedFd semantics stay real), all I/O on it is simulated
    let file = std::fs::OpenOptions::new().read(true).write(true).open("/dev/null").map_err(|e| violation(prop, "harness", "harness", format!("open /dev/null: {e}")))?;
    let fd: OwnedFd = file.into();
    let raw = fd.as_raw_fd();
    kernel.borrow_mut().tty_fd = raw;
    rustix::sim::install(raw, Box::new(HooksImpl(kernel.clone())));
    install_yield_hook(kernel);

    // faults that may hit during construction
    {
        let mut k = kernel.borrow_mut();
        if k.src.chance(1, 12) {
            let at = k.src.draw(2000) as u64 * US;
            k.schedule(at, Ev::Eio);
        }
        if k.src.chance(1, 12) {
            let at = k.src.draw(2000) as u64 * US;
            k.schedule(at, Ev::Hangup);
        }
        if k.src.chance(1, 8) {
            let at = k.src.draw(500) as u64 * US;
            let len = (1 + k.src.draw(3000) as u64) * MS;
            let now = k.now;
            k.schedule(at, Ev::Stall(now + at + len));
        }
        k.signals_enabled = true;
        if k.src.chance(1, 10) {
            // signal during capability detection (handlers are registered before detection starts,
            // but not before `new_from_fd` is entered: keep a safe distance)
            let at = (200 + k.src.draw(2000) as u64) * US;
            let sig = *k.src.pick(&[libc::SIGWINCH, libc::SIGINT, libc::SIGTERM]);
            k.schedule(at, Ev::Signal(sig, false));
        }
    }
    // signals may only be raised once signal-hook handlers exist in this process; make sure of it
    ensure_signal_hook_installed();

    kernel.borrow_mut().constructing = true;
    // fault: the process runs out of file descriptors somewhere inside the constructor (it
    // creates two socket pairs after it has entered raw mode)
    let nofile_saved = {
        let mut k = kernel.borrow_mut();
        if k.src.chance(1, 24) {
            let highest = (0..1024).rev().find(|fd| unsafe { libc::fcntl(*fd, libc::F_GETFD) } != -1).unwrap_or(2);
            let extra = k.src.draw(6) as u64;
            let mut old = libc::rlimit { rlim_cur: 0, rlim_max: 0 };
            unsafe { libc::getrlimit(libc::RLIMIT_NOFILE, &mut old) };
            let low = libc::rlimit { rlim_cur: highest as u64 + 1 + extra, rlim_max: old.rlim_max };
            unsafe { libc::setrlimit(libc::RLIMIT_NOFILE, &low) };
            k.src.fault("file-descriptors-exhausted-during-construction");
            k.src.log(|| format!("RLIMIT_NOFILE lowered: {} more descriptor(s) available", extra));
            Some(old)
        } else {
            None
        }
    };
    let built = guarded(|| SystemTerminal::new_from_fd(fd));
    if let Some(old) = nofile_saved {
        unsafe { libc::setrlimit(libc::RLIMIT_NOFILE, &old) };
    }
    kernel.borrow_mut().constructing = false;
    let built_info = match &built {
        Ok(Ok(term)) => format!("caps={:?} size={:?} frames_pending={}", term.capabilities(), term.size().ok(), term.frames_pending()),
        _ => String::new(),
    };
    let mut k = kernel.borrow_mut();
    let now = k.now;
    let term = match built {
        Err(()) => {
            // construction only uses finite timeouts: it can never block for ever
            drop(k);
            return Err(violation("C17", "C17.blocked", "construction-blocked", "terminal construction blocked for ever in select".to_string()));
        }
        Ok(Err(err)) => {
            k.src.log(|| format!("t={}us construction failed: {:?}", now / US, err));
            k.src.probe("construction-failed");
            k.signals_enabled = false;
            let restored = termios_eq(&k.termios, &k.termios_initial);
            let calls = k.tcsetattr_calls;
            drop(k);
            if prop == "C17" && !restored && calls > 0 {
                return Err(violation("C17", "C17.termios", "termios-not-restored-after-failed-construction", format!("construction failed with {:?} and left the tty in raw mode", err)));
            }
            // (a termination signal during detection is reported by this very error, or, when
            // construction failed for another reason, to nobody: the object does not exist)
            return Ok(());
        }
        Ok(Ok(term)) => term,
    };
    k.src.log(|| format!("t={}us constructed: {}", now / US, built_info));
    k.waker = Some(term.waker());
    k.counting_signals = true;
    let caps = term.capabilities().clone();
    let kb = caps.kitty_keyboard;
    let base = k.written.len();
    // bytes already queued inside the terminal but not yet handed to the tty: history starts with them
    let mut expected: Vec<u8> = Vec::new();
    {
        // what is still inside the write queue: everything construction wrote minus what the tty accepted
        // (construction ends with execute(KeyboardLevel) which is the only thing that can be pending,
        // apart from a detection that was cut short)
        let _ = kb;
    }
    drop(k);
    let pending_frames = term.frames_pending();

    let mut app = App {
        term: Some(term),
        k: kernel.clone(),
        history: History::default(),
        expected: Vec::new(),
        base,
        encoder: TTYEncoder::new(caps.clone()),
        keys: Vec::new(),
        wakes_seen: 0,
        resizes_seen: 0,
        last_resize: None,
        quit_seen: 0,
        failed: false,
        blocked: false,
        blocked_excused: false,
        last_wake_event_step: 0,
        overstay: None,
        spurious_quit: None,
        overtaken: None,
        epoch: Epoch::default(),
        epochs: 0,
        handler_error: false,
    };

    // ---- settle: drain whatever construction left behind so that history starts from a clean queue
    let mut settle = 0;
    loop {
        settle += 1;
        match app.poll(Some(Duration::from_millis(0))) {
            Polled::Event(None) => {
                if app.term.as_ref().unwrap().frames_pending() == 0 || settle > 200 {
                    break;
                }
            }
            Polled::Event(Some(_)) => {}
            Polled::Quit | Polled::Failed(_) | Polled::Blocked => break,
        }
        if settle > 400 {
            break;
        }
    }
    let _ = pending_frames;
    let clean_start = !app.failed && !app.blocked && app.quit_seen == 0 && app.term.as_ref().unwrap().frames_pending() == 0;
    app.base = kernel.borrow().written.len();
    app.history = History::default();
    expected.clear();
    app.expected = expected;
    app.keys.clear();
    let wakes_before = app.wakes_seen;
    let _ = wakes_before;

    if clean_start && kernel.borrow().faults.tee_full {
        // every write to the copy fails once its 8 KiB buffer is full: polls start to fail,
        // but what the tty has accepted must not be sent to it again
        let res = app.term.as_mut().unwrap().duplicate_output("/dev/full");
        let mut k = kernel.borrow_mut();
        k.src.fault("output-copy-on-full-device");
        k.src.log(|| format!("app: duplicate_output(/dev/full) -> {:?}", res.is_ok()));
    }

    // ---- the script
    let max_ops = if ctx.tier == Tier::Quick { 16 } else { 40 };
    let ops = if clean_start { 1 + kernel.borrow_mut().src.draw(max_ops) } else { 0 };
    let mut owed_wake = false;
    let mut forced_ops: VecDeque<u32> = VecDeque::new();
    let mut hid_cursor = false;
    let mut image_pool: Vec<Image> = Vec::new();
    let mut image_twin: Box<dyn ImageHandler> = match app.term.as_mut().unwrap().image_handler().kind() {
        ImageHandlerKind::Kitty => Box::new(KittyImageHandler::new()),
        // (the pictures are opaque: the background colour detection found does not show)
        ImageHandlerKind::Sixel => Box::new(SixelImageHandler::new(None)),
        ImageHandlerKind::Dummy => Box::new(DummyImageHandler),
    };
    let mut typed_total = 0usize;
    let mut step = 0;
    while step < ops || !forced_ops.is_empty() {
        step += 1;
        if app.failed || app.blocked {
            break;
        }
        let op = match forced_ops.pop_front() {
            Some(op) => op,
            None => kernel.borrow_mut().src.draw(17),
        };
        match op {
            0 | 1 => {
                // write payload
                let (n, cap) = {
                    let mut k = kernel.borrow_mut();
                    let cap = k.out_cap;
                    let class = k.src.draw(4);
                    let n = match class {
                        0 => 1 + k.src.draw(8) as usize,
                        1 => 1 + k.src.draw(cap as u32 * 2) as usize,
                        2 => cap * (2 + k.src.draw(16) as usize) + k.src.draw(5) as usize,
                        _ => (cap * (16 + k.src.draw(48) as usize)).min(65536),
                    };
                    (n, cap)
                };
                let start = app.expected.len() as u64;
                let buf: Vec<u8> = (0..n as u64).map(|i| stamp(start + i)).collect();
                app.history.on_write_bytes(n);
                app.expected.extend_from_slice(&buf);
                let res = app.term.as_mut().unwrap().write_all(&buf);
                let mut k = kernel.borrow_mut();
                if n > 16 * cap {
                    k.src.probe("payload-larger-than-16-buffers");
                }
                k.src.log(|| format!("app: write({n}) -> {:?}", res.is_ok()));
                k.src.sig(0xA100 + (n > cap) as u64);
            }
            2 | 3 => {
                // execute command
                let cmd = {
                    let mut k = kernel.borrow_mut();
                    match k.src.draw(14) {
                        12 | 13 => {
                            // image commands go through the terminal's image handler into the same
                            // queue (values 12 and 13 were added last: older tapes read as before)
                            let which = k.src.draw(3) as usize;
                            let pos = Position::new(k.src.draw(4) as usize, k.src.draw(4) as usize * 3);
                            let erase = k.src.chance(1, 3);
                            if image_pool.is_empty() {
                                // (12 x 12: one transmission chunk, 40 x 40: three, 6 x 2: a single sixel band)
                                for (seed, h, w) in [(7u8, 12usize, 12usize), (90, 40, 40), (201, 6, 2)] {
                                    let data: Vec<RGBA> = (0..h * w).map(|i| RGBA::new(seed.wrapping_add((i / w * 31) as u8), (i % w * 17) as u8 ^ seed, (i % 7 * 36) as u8, 255)).collect();
                                    image_pool.push(Image::from_parts(data.into(), Shape::from(Size::new(h, w))));
                                }
                            }
                            k.src.probe("image-command-executed-on-the-terminal");
                            if erase {
                                TerminalCommand::ImageErase(image_pool[which].clone(), if k.src.chance(1, 4) { None } else { Some(pos) })
                            } else {
                                TerminalCommand::Image(image_pool[which].clone(), pos)
                            }
                        }
                        0 => TerminalCommand::Char('x'),
                        1 => TerminalCommand::CursorTo(Position::new(k.src.draw(50) as usize, k.src.draw(200) as usize)),
                        2 => TerminalCommand::Face(Face::default()),
                        3 => TerminalCommand::EraseChars(1 + k.src.draw(20) as usize),
                        8 | 9 => {
                            // a few faces, so that the same one comes again after other commands
                            let faces: [&str; 3] = ["fg=#000000,bg=#ffffff,bold", "fg=#ff0000", "bg=#0000ff,underline,italic"];
                            TerminalCommand::Face(faces[k.src.draw(3) as usize].parse().expect("face"))
                        }
                        10 => {
                            let mut modify = surf_n_term::FaceModify::default();
                            match k.src.draw(3) {
                                0 => {}
                                1 => modify.bold = Some(true),
                                _ => {
                                    modify.reset = true;
                                    modify.italic = Some(false);
                                }
                            }
                            TerminalCommand::FaceModify(modify)
                        }
                        11 => k.src.pick(&[TerminalCommand::EraseLine, TerminalCommand::EraseLineRight, TerminalCommand::CursorSave, TerminalCommand::CursorRestore]).clone(),
                        4 => {
                            hid_cursor = true;
                            TerminalCommand::visible_cursor_set(false)
                        }
                        5 => TerminalCommand::DecModeSet { enable: true, mode: DecMode::MouseReport },
                        6 => TerminalCommand::DecModeSet { enable: true, mode: DecMode::MouseSGR },
                        _ => TerminalCommand::Title("title".to_string()),
                    }
                };
                // what the command encodes to does not depend on what was executed before it: the
                // reference is a fresh encoder per command (none of these commands touches the
                // only state an encoder legitimately keeps, the keyboard level)
                let mut bytes = Vec::new();
                match &cmd {
                    // the reference for image commands is a second handler of the kind the terminal
                    // chose, given the same draws and erases in the same order (what a handler emits
                    // depends on what it has transmitted before; the terminal emulator of this world
                    // never reports a graphics error, so nothing else reaches the terminal's handler)
                    TerminalCommand::Image(img, pos) => {
                        let _ = image_twin.draw(&mut bytes, img, *pos);
                    }
                    TerminalCommand::ImageErase(img, pos) => {
                        let _ = image_twin.erase(&mut bytes, img, *pos);
                    }
                    _ => {
                        let _ = TTYEncoder::new(caps.clone()).encode(&mut bytes, cmd.clone());
                    }
                }
                app.history.on_write_bytes(bytes.len());
                app.expected.extend_from_slice(&bytes);
                let res = app.term.as_mut().unwrap().execute(cmd.clone());
                let mut k = kernel.borrow_mut();
                k.src.log(|| format!("app: execute({:?}) -> {:?}", cmd, res.is_ok()));
                k.src.sig(0xA200);
            }
            4 => {
                let _ = app.term.as_mut().unwrap().flush();
                app.history.on_flush();
                let mut k = kernel.borrow_mut();
                k.src.log(|| "app: flush".to_string());
                k.src.sig(0xA300);
            }
            5 | 6 | 7 => {
                // poll with one of the timeout classes; poll(None) only when something is owed
                let timeout = {
                    let mut k = kernel.borrow_mut();
                    let something_owed = !k.events.is_empty() || !k.in_queue.is_empty() || !k.out_buf.is_empty();
                    match k.src.draw(4) {
                        0 => Some(Duration::from_millis(0)),
                        1 => Some(Duration::from_micros(1 + k.src.draw(5000) as u64)),
                        2 => Some(Duration::from_millis(1 + k.src.draw(2000) as u64)),
                        _ => {
                            if something_owed {
                                // "for ever" is spelled None, or as a duration that no clock
                                // can add to the present
                                match k.src.draw(16) {
                                    14 => {
                                        k.src.probe("poll-with-the-largest-duration");
                                        Some(Duration::MAX)
                                    }
                                    15 => {
                                        k.src.probe("poll-with-the-largest-duration");
                                        Some(Duration::from_secs(u64::MAX))
                                    }
                                    _ => None,
                                }
                            } else {
                                Some(Duration::from_millis(1))
                            }
                        }
                    }
                };
                if !ctx.avoids("app-uses-drain") && kernel.borrow_mut().src.chance(1, 10) {
                    kernel.borrow_mut().src.probe("application-drains-events");
                    app.drain();
                    continue;
                }
                match app.poll(timeout) {
                    Polled::Event(Some(TerminalEvent::Wake)) => owed_wake = false,
                    Polled::Blocked => {}
                    _ => {}
                }
            }
            8 => {
                let pending = app.term.as_ref().unwrap().frames_pending();
                app.term.as_mut().unwrap().frames_drop();
                app.history_drop();
                let after = app.term.as_ref().unwrap().frames_pending();
                let mut k = kernel.borrow_mut();
                if pending > 1 {
                    k.src.probe("frames-dropped-with-backlog");
                }
                k.src.log(|| format!("app: frames_drop pending {pending} -> {after}"));
                k.src.sig(0xA400 + (pending > 1) as u64);
            }
            9 => {
                // user types keys
                let mut k = kernel.borrow_mut();
                let mut bytes = Vec::new();
                if k.lone_escape {
                    // the escape key was the last thing the user pressed in this session
                } else if !ctx.avoids("lone-escape") && k.src.chance(1, 12) {
                    // the escape key on its own: one byte that is also the first byte of
                    // every report and function key
                    bytes.push(0x1b);
                    k.lone_escape = true;
                    k.src.fault("escape-key-with-nothing-after-it");
                } else if k.src.chance(1, 8) {
                    // pasted text: longer than the 1024-byte read buffer of poll, with
                    // multi-byte characters, so that reads end inside characters
                    let n = 300 + k.src.draw(1200) as usize;
                    let mut text = String::new();
                    for i in 0..n {
                        typed_total += 1;
                        if (typed_total + i) % 3 == 0 {
                            text.push(PASTED[typed_total % PASTED.len()]);
                        } else {
                            text.push(TYPED[typed_total % TYPED.len()] as char);
                        }
                    }
                    bytes.extend_from_slice(text.as_bytes());
                    k.src.fault("pasted-text-longer-than-the-read-buffer");
                } else {
                    let n = 1 + k.src.draw(6) as usize;
                    for _ in 0..n {
                        let c = TYPED[typed_total % TYPED.len()];
                        typed_total += 1;
                        bytes.push(c);
                    }
                }
                let delay = k.src.draw(3000) as u64 * US;
                if !bytes.is_empty() {
                    k.schedule(delay, Ev::Input(bytes, "user"));
                }
            }
            10 => {
                // another thread wakes the terminal
                let mut k = kernel.borrow_mut();
                if k.src.chance(1, 4) {
                    // a burst from busy threads: many requests before the terminal looks again
                    // (sizes around the powers of two a reader's buffer is likely to have)
                    const BURSTS: [u32; 14] = [5, 15, 16, 17, 31, 32, 33, 48, 64, 100, 255, 256, 1024, 1025];
                    let n = BURSTS[k.src.draw(BURSTS.len() as u32) as usize];
                    let delay = k.src.draw(3000) as u64 * US;
                    k.src.fault("wake-burst");
                    for _ in 0..n {
                        k.schedule(delay, Ev::Wake);
                    }
                } else {
                    let n = 1 + k.src.draw(3);
                    for _ in 0..n {
                        let delay = k.src.draw(3000) as u64 * US;
                        k.schedule(delay, Ev::Wake);
                    }
                }
                owed_wake = true;
            }
            11 => {
                // signals
                let mut k = kernel.borrow_mut();
                let sig = *k.src.pick(&[libc::SIGWINCH, libc::SIGWINCH, libc::SIGINT, libc::SIGTERM, libc::SIGQUIT]);
                let delay = k.src.draw(3000) as u64 * US;
                // the window only ever changes size together with a SIGWINCH
                let resize = k.src.chance(1, 2) && sig == libc::SIGWINCH;
                k.schedule(delay, Ev::Signal(sig, resize));
                if resize && k.src.chance(1, 3) {
                    // the user drags the window: another size shortly afterwards, while the
                    // question about the first one may still be queued, on its way or answered
                    let gap = k.src.draw(800) as u64 * US;
                    k.schedule(delay + gap, Ev::Signal(sig, true));
                    k.src.fault("window-dragged");
                    if forced_ops.is_empty() && k.src.chance(1, 2) {
                        // ... while the application keeps drawing and the terminal may be slow:
                        // emulator trouble, two frames, a poll, dropped frames, a poll, and the
                        // application synchronises (each step draws its own details as usual)
                        forced_ops.extend([12, 1, 4, 1, 4, 6, 8, 6, 13]);
                    }
                }
                if k.src.chance(1, 4) {
                    // burst / duplicate
                    k.schedule(delay + 1, Ev::Signal(sig, false));
                    k.src.fault("signal-burst");
                }
            }
            12 => {
                // emulator trouble
                let mut k = kernel.borrow_mut();
                let delay = k.src.draw(2000) as u64 * US;
                match k.src.draw(6) {
                    0 | 1 | 2 => {
                        let len = (1 + k.src.draw(1500) as u64) * MS;
                        let now = k.now;
                        k.schedule(delay, Ev::Stall(now + delay + len));
                    }
                    3 => {
                        if !ctx.avoids("terminal-stops-reading") && k.src.chance(1, 3) {
                            k.schedule(delay, Ev::Hang);
                        } else {
                            k.schedule(delay, Ev::Tick);
                        }
                    }
                    4 => k.schedule(delay, Ev::Hangup),
                    _ => k.schedule(delay, Ev::Eio),
                }
            }
            13 => {
                // application synchronises: drain everything, a new epoch starts
                let clean = drain_to_boundary(&mut app, kernel);
                kernel.borrow_mut().src.sig(0xA600 + clean as u64);
                if clean {
                    kernel.borrow_mut().src.probe("mid-session-clean-boundary");
                    if prop == "C17" {
                        app.epoch_check(kernel, "mid-session")?;
                    }
                }
            }
            14 => {
                // cursor position query: only sensible with a peer that answers DA1
                let answers = {
                    let k = kernel.borrow();
                    k.person.da1 && !k.eio && !k.hup
                };
                if answers {
                    let k = kernel.clone();
                    {
                        // keys typed around the answer: one while position() waits (it has to
                        // keep it for the application) and one that reaches the tty right
                        // behind the answer, in the same read
                        let mut kk = k.borrow_mut();
                        if !kk.lone_escape && kk.src.chance(1, 2) {
                            let answer_at = kk.drain_latency + kk.reply_latency;
                            for delay in [kk.src.draw(50) as u64 * US, answer_at + kk.src.draw(30) as u64 * US] {
                                let c = TYPED[typed_total % TYPED.len()];
                                typed_total += 1;
                                kk.schedule(delay, Ev::Input(vec![c], "user"));
                            }
                            kk.src.probe("keys-typed-around-position-answer");
                        }
                    }
                    k.borrow_mut().in_poll = true;
                    // position() = execute(CursorGet) + execute(DeviceAttrs) + poll(None) until DA1
                    let mut bytes = Vec::new();
                    let _ = app.encoder.encode(&mut bytes, TerminalCommand::CursorGet);
                    let _ = app.encoder.encode(&mut bytes, TerminalCommand::DeviceAttrs);
                    app.history.on_write_bytes(bytes.len());
                    app.expected.extend_from_slice(&bytes);
                    app.history.on_flush();
                    let term = app.term.as_mut().unwrap();
                    let res = guarded(|| term.position());
                    k.borrow_mut().in_poll = false;
                    let mut kk = k.borrow_mut();
                    kk.src.probe("position-query");
                    kk.src.sig(0xA700 + res.is_ok() as u64);
                    let now = kk.now;
                    match res {
                        Err(()) => {
                            app.blocked = true;
                            // waiting for ever for the answer of a terminal that has stopped
                            // reading is what position() is documented to do: not judged
                            app.blocked_excused = kk.hung;
                            kk.src.log(|| format!("t={}us app: position() blocked", now / US));
                        }
                        Ok(Err(Error::Quit)) => {
                            app.quit_seen += 1;
                            kk.src.log(|| format!("t={}us app: position() -> Quit", now / US));
                        }
                        Ok(Err(err)) => {
                            app.failed = true;
                            kk.src.log(|| format!("t={}us app: position() failed {:?}", now / US, err));
                        }
                        Ok(Ok(pos)) => kk.src.log(|| format!("t={}us app: position() -> {:?}", now / US, pos)),
                    }
                }
            }
            15 => {
                // Terminal::run with an event handler that gives up after a few events, either by
                // quitting or by returning an error (an exit path of the session)
                let (budget, fail) = {
                    let mut k = kernel.borrow_mut();
                    (1 + k.src.draw(4) as usize, k.src.chance(1, 2))
                };
                let k = kernel.clone();
                k.borrow_mut().in_poll = true;
                app.history.on_flush();
                let mut seen: Vec<Option<TerminalEvent>> = Vec::new();
                let term = app.term.as_mut().unwrap();
                let res = guarded(|| {
                    term.run(Some(Duration::from_millis(2)), |_term, event| -> Result<surf_n_term::TerminalAction<u32>, Error> {
                        seen.push(event);
                        if seen.len() >= budget {
                            if fail {
                                return Err(Error::Other("handler gave up".into()));
                            }
                            return Ok(surf_n_term::TerminalAction::Quit(1));
                        }
                        // an infinite wait only when something is on its way that must end it
                        let wait = {
                            let mut kk = k.borrow_mut();
                            let coming = kk.events.values().any(|ev| matches!(ev, Ev::Wake | Ev::Input(_, "user"))) || !kk.in_queue.is_empty();
                            coming && kk.src.chance(1, 3)
                        };
                        if wait {
                            k.borrow_mut().src.probe("terminal-run-handler-waits");
                            return Ok(surf_n_term::TerminalAction::Wait);
                        }
                        Ok(surf_n_term::TerminalAction::Sleep(Duration::from_millis(3)))
                    })
                });
                k.borrow_mut().in_poll = false;
                // every poll inside run is a frame delimiter as well
                for _ in 0..seen.len() {
                    app.history.on_flush();
                }
                for event in seen.iter() {
                    match event {
                        Some(TerminalEvent::Key(key)) => {
                            if let KeyName::Char(c) = key.name {
                                if key.mode.is_empty() && typed_char(c) {
                                    app.keys.push(c);
                                }
                            }
                        }
                        Some(TerminalEvent::Wake) => {
                            app.wakes_seen += 1;
                            app.last_wake_event_step = k.borrow().steps;
                            if let Some(msg) = wake_order_check(&mut k.borrow_mut(), app.keys.len()) {
                                app.overtaken.get_or_insert(msg);
                            }
                        }
                        Some(TerminalEvent::Resize(size)) => {
                            app.resizes_seen += 1;
                            app.last_resize = Some(*size);
                        }
                        _ => {}
                    }
                }
                let mut kk = k.borrow_mut();
                kk.src.probe("terminal-run-with-handler");
                kk.src.sig(0xA800 + fail as u64);
                let now = kk.now;
                match res {
                    Err(()) => app.blocked = true,
                    Ok(Err(Error::Quit)) => app.quit_seen += 1,
                    Ok(Err(Error::Other(_))) => {
                        // the handler's error: the session ends here
                        kk.src.probe("handler-returned-error");
                        kk.src.log(|| format!("t={}us app: run() handler returned an error after {} events", now / US, seen.len()));
                        app.handler_error = true;
                    }
                    Ok(Err(_)) => app.failed = true,
                    Ok(Ok(_)) => {}
                }
                kk.src.log(|| format!("t={}us app: run() saw {:?}", now / US, seen));
            }
            _ => {
                let pending = app.term.as_ref().unwrap().frames_pending();
                let mut k = kernel.borrow_mut();
                k.src.sig(0xA500 + pending.min(3) as u64);
            }
        }
        if app.handler_error {
            break;
        }
        let _ = owed_wake;
    }

    // ---- clean boundary: drain events until nothing is left (bounded), only if tty is healthy
    let mut boundary_clean = false;
    // drop point: in a fraction of runs the terminal is released right here, in the middle of
    // whatever is going on (events still scheduled fire during dispose)
    let abrupt = kernel.borrow_mut().src.chance(1, 3) || app.handler_error;
    if abrupt {
        let mut k = kernel.borrow_mut();
        k.src.probe("abrupt-drop");
        if k.src.chance(1, 3) {
            let sig = *k.src.pick(&[libc::SIGINT, libc::SIGTERM, libc::SIGWINCH]);
            let delay = k.src.draw(400) as u64 * US;
            k.schedule(delay, Ev::Signal(sig, false));
            k.src.probe("signal-scheduled-around-drop");
        }
    }
    if clean_start && !app.failed && !app.blocked && !abrupt {
        boundary_clean = drain_to_boundary(&mut app, kernel);
        if boundary_clean && prop == "C17" {
            app.epoch_check(kernel, "final")?;
        }
    }

    // ---- oracles before release
    let healthy = {
        let k = kernel.borrow();
        !k.eio && !k.hup && !k.dead
    };
    {
        let mut k = kernel.borrow_mut();
        if k.events_in_poll > 0 {
            k.src.nontrivial = true;
            k.src.probe("actor-event-ran-inside-poll");
        }
        if boundary_clean {
            k.src.probe("clean-boundary-reached");
        }
    }
    if prop == "C17" {
        if let Some(msg) = app.overtaken.take() {
            return Err(violation("C17", "C17.event-order", "wake-overtakes-input", msg));
        }
        if let Some(msg) = kernel.borrow_mut().ignored_input.take() {
            return Err(violation("C17", "C17.starved-input", "tty-readable-but-not-read", msg));
        }
        if let Some(msg) = app.overstay.take() {
            return Err(violation("C17", "C17.unbounded-poll", "event-held-past-deadline", msg));
        }
        if let Some(msg) = app.spurious_quit.take() {
            return Err(violation("C17", "C17.signal", "quit-without-signal-or-hang-up", msg));
        }
    }
    if app.blocked && !app.blocked_excused && prop == "C17" {
        // a poll blocked for ever: legitimate only if nothing was owed
        let k = kernel.borrow();
        let waker_byte = k.last_read_fds.iter().any(|fd| *fd != k.tty_fd && real_readable(*fd));
        if waker_byte || k.tty_readable() {
            let what = if k.tty_readable() { "tty input pending" } else { "waker or signal pipe readable" };
            return Err(violation("C17", "C17.lost-wakeup", "poll-blocked-with-input-pending", format!("poll blocked for ever in select although {what}")));
        }
        // nothing is readable any more, but was everything that had been requested handed out?
        // (a poll that holds a Wake or a key in its queue and never returns has lost it)
        let wake_owed = k.wakes_requested > 0 && k.last_wake_seq > app.last_wake_event_step;
        let input_owed = k.typed.len() > app.keys.len() && !k.hup && !k.eio;
        let output_stuck = app.term.as_ref().map(|t| t.frames_pending() > 0).unwrap_or(false) && !k.hup && !k.eio && k.out_buf.len() < k.out_cap;
        if wake_owed || input_owed || output_stuck {
            // the terminal stopped reading and output is still queued: the poll loop does not
            // return while output is pending, so whatever it holds is starved behind it
            let starved = k.hung && app.term.as_ref().map(|t| t.frames_pending() > 0).unwrap_or(false);
            return Err(violation(
                "C17",
                "C17.lost-wakeup",
                if starved { "event-starved-behind-pending-output+terminal-stops-reading" } else { "poll-blocked-with-event-owed" },
                format!(
                    "a poll with infinite timeout blocked for ever although {} (wake requests {}, Wake events {}, typed {}, key events {}, frames pending {:?})",
                    if wake_owed { "a wake request was not answered with a Wake event" } else if input_owed { "typed input was not delivered" } else { "output is queued and the tty is writable" },
                    k.wakes_requested,
                    app.wakes_seen,
                    k.typed.len(),
                    app.keys.len(),
                    app.term.as_ref().map(|t| t.frames_pending())
                ),
            ));
        }
    }
    if prop == "C17" && boundary_clean && healthy {
        let k = kernel.borrow();
        // typed input arrives completely and in order
        let typed: Vec<char> = k.typed.clone();
        if app.keys != typed {
            return Err(violation(
                "C17",
                "C17.input-order",
                if app.keys.len() < typed.len() { "typed-input-lost" } else { "typed-input-reordered-or-duplicated" },
                format!("user typed {:?} but key events were {:?}", typed.iter().collect::<String>(), app.keys.iter().collect::<String>()),
            ));
        }
        // wake requests are never lost
        if k.wakes_requested > 0 && (app.wakes_seen == 0 || app.last_wake_event_step < k.last_wake_seq) {
            return Err(violation(
                "C17",
                "C17.lost-wakeup",
                "wake-request-without-wake-event",
                format!("{} wake requests, {} Wake events; no Wake event was delivered after the last request", k.wakes_requested, app.wakes_seen),
            ));
        }
        // termination signals surface as quit
        if k.quit_raised > 0 && app.quit_seen == 0 {
            return Err(violation("C17", "C17.signal", "termination-signal-not-reported", format!("{} termination signals raised, poll never returned Error::Quit", k.quit_raised)));
        }
        // window size signals produce resize events (when the size source can answer)
        if k.winch_raised > 0 && app.resizes_seen == 0 && k.winsize.ws_xpixel != 0 && k.winsize.ws_ypixel != 0 {
            // ioctl path: every SIGWINCH must surface as Resize (coalescing allowed)
            return Err(violation("C17", "C17.signal", "sigwinch-without-resize", format!("{} SIGWINCH raised, no Resize event delivered", k.winch_raised)));
        }
        drop(k);
        kernel.borrow_mut().src.probe("c17-boundary-oracles-evaluated");
    }

    // ---- release: drop at this point, whatever state we are in
    let (stall_free, responsive, fast) = {
        let k = kernel.borrow();
        let accepted = k.written.len() - app.base;
        let pending_bytes = (app.expected.len().saturating_sub(accepted) + k.out_buf.len() + 256) as u64;
        let eff_chunk = k.drain_chunk.min(k.out_cap).max(1) as u64;
        let per_byte = (k.drain_latency + 40 * US) / eff_chunk + 1;
        let needed = pending_bytes * per_byte + k.reply_latency + k.drain_latency;
        // responsive: the terminal answers and reads; fast: it drains what is pending well
        // within the second that dispose is prepared to wait
        (k.now >= k.stalled_until && !k.hung, true, needed < SEC / 4)
    };
    let drop_clean_queue = app.term.as_ref().map(|t| t.frames_pending() == 0).unwrap_or(true);
    let term = app.term.take().unwrap();
    // epilogue the library is expected to write
    let mut epilogue = Vec::new();
    {
        let mut enc = TTYEncoder::new(caps.clone());
        for cmd in [
            TerminalCommand::Face(Default::default()),
            TerminalCommand::visible_cursor_set(true),
            TerminalCommand::DecModeSet { enable: false, mode: DecMode::MouseMotions },
            TerminalCommand::DecModeSet { enable: false, mode: DecMode::MouseSGR },
            TerminalCommand::DecModeSet { enable: false, mode: DecMode::MouseReport },
            TerminalCommand::DecModeSet { enable: true, mode: DecMode::AutoWrap },
            TerminalCommand::KeyboardLevel(0),
            TerminalCommand::DeviceAttrs,
        ] {
            let _ = enc.encode(&mut epilogue, cmd);
        }
    }
    app.history_drop();
    app.history.on_write_bytes(epilogue.len());
    app.expected.extend_from_slice(&epilogue);
    {
        let mut k = kernel.borrow_mut();
        let now = k.now;
        let pending = !drop_clean_queue;
        k.src.log(|| format!("t={}us app: drop(terminal) queue_pending={}", now / US, pending));
        if pending {
            k.src.probe("drop-with-non-empty-queue");
        }
        if k.quit_raised > app.quit_seen {
            k.src.probe("drop-with-unconsumed-termination-signal");
        }
        k.disposing = true;
    }
    let dropped = guarded(|| drop(term));
    {
        let mut k = kernel.borrow_mut();
        k.signals_enabled = false;
        k.waker = None;
        if dropped.is_err() {
            k.dead = true;
        }
    }
    if dropped.is_err() {
        return Err(violation("C17", "C17.blocked", "dispose-blocked", "dropping the terminal blocked for ever in select".to_string()));
    }

    let k = kernel.borrow();
    // ---- C17: line settings restored on every exit path
    if prop == "C17" {
        if !termios_eq(&k.termios, &k.termios_initial) {
            return Err(violation("C17", "C17.termios", "termios-not-restored", "line settings after drop differ from the ones found at open".to_string()));
        }
        // closing sequence delivered when the tty is healthy and the peer responsive
        if k.trouble_in_dispose {
            drop(k);
            kernel.borrow_mut().src.probe("stall-or-failure-during-dispose");
            return Ok(());
        }
        if k.faults.tee_full {
            // the polls of dispose fail with the error of the output copy: the closing sequence
            // clause is about the tty, not about a debugging file on a full device
            drop(k);
            kernel.borrow_mut().src.probe("output-copy-failing-during-dispose");
            return Ok(());
        }
        if k.quits_in_dispose > 3 {
            // a storm of termination signals while the terminal is being released is read as
            // "stop now": the library is allowed to give up on the closing sequence
            drop(k);
            kernel.borrow_mut().src.probe("termination-signal-storm-during-dispose");
            return Ok(());
        }
        if healthy && !k.eio && !k.hup && stall_free && responsive && clean_start && !app.blocked {
            let tail_ok = strip_size_queries(&k.written).ends_with(&epilogue);
            let modes_ok = k.out_buf.is_empty() && k.modes.cursor_visible && !k.modes.mouse_1000 && !k.modes.mouse_1003 && !k.modes.mouse_1006;
            if !tail_ok || (!modes_ok && k.out_buf.is_empty()) {
                let pending_quit = k.quit_raised > app.quit_seen;
                return Err(violation(
                    "C17",
                    "C17.closing-sequence",
                    match (pending_quit, fast) {
                        (true, true) => "closing-sequence-lost-with-pending-termination-signal",
                        (true, false) => "closing-sequence-lost-with-pending-termination-signal+slow-terminal",
                        (false, true) => "closing-sequence-not-delivered",
                        (false, false) => "closing-sequence-not-delivered+slow-terminal",
                    },
                    format!(
                        "tty healthy and peer responsive, but after drop the closing sequence was not delivered (tail_ok={tail_ok}, modes={:?}, hid_cursor={hid_cursor}, unconsumed termination signals={}); tail of tty output: {:?}; expected closing sequence: {:?}",
                        k.modes,
                        k.quit_raised.saturating_sub(app.quit_seen),
                        String::from_utf8_lossy(&k.written[k.written.len().saturating_sub(epilogue.len() + 8)..]),
                        String::from_utf8_lossy(&epilogue),
                    ),
                ));
            }
        }
        return Ok(());
    }

    // ---- C16: history of bytes accepted by the tty since the history started
    if !clean_start {
        return Ok(());
    }
    let raw: Vec<u8> = k.written[app.base..].to_vec();
    // the library's own size query written on SIGWINCH is not application output: filter it and
    // translate raw offsets (recorded at drop calls) into offsets of the filtered stream
    let mut out = Vec::with_capacity(raw.len());
    let mut map: Vec<usize> = Vec::with_capacity(raw.len() + 1);
    let mut i = 0;
    while i < raw.len() {
        let rest = &raw[i..];
        if k.winch_raised > 0 && rest.starts_with(GET_TERM_SIZE) {
            for _ in 0..GET_TERM_SIZE.len() {
                map.push(out.len());
            }
            i += GET_TERM_SIZE.len();
        } else if k.winch_raised > 0 && rest.len() < GET_TERM_SIZE.len() && GET_TERM_SIZE.starts_with(rest) {
            // query cut short at the very end of the observed stream (tty failed or terminal dropped)
            for _ in 0..rest.len() {
                map.push(out.len());
            }
            i = raw.len();
        } else {
            map.push(out.len());
            out.push(raw[i]);
            i += 1;
        }
    }
    map.push(out.len());
    let mut history = std::mem::take(&mut app.history);
    for entry in history.drops.iter_mut() {
        entry.2 = map[entry.2.min(raw.len())];
    }
    history.on_out(&out);
    let expected = std::mem::take(&mut app.expected);
    // under the conditions in which the release has to deliver everything (the same as for the
    // closing-sequence clause of C17) the frame in flight and the epilogue must have come out
    // completely: a torn frame at release is a torn frame
    let drained = healthy && !k.faults.tee_full && responsive && stall_free && !k.trouble_in_dispose && k.quits_in_dispose <= 3 && !app.blocked && !k.eio && !k.hup;
    drop(k);
    match history.finish(drained, &|pos| expected[pos as usize]) {
        Err(strict) if drained && !fast => {
            // a terminal that is alive but needs longer than dispose waits: if the stream is
            // right as far as it goes, what is wrong is only that the release cut it short
            history.finish(false, &|pos| expected[pos as usize])?;
            Err(Violation::new("C16", "C16.release", "output-cut-short-at-release+slow-terminal", strict.detail))
        }
        other => other,
    }
}

/// the library's own size query (written when SIGWINCH arrives in escape-size mode) removed
fn strip_size_queries(raw: &[u8]) -> Vec<u8> {
    let mut out = Vec::with_capacity(raw.len());
    let mut i = 0;
    while i < raw.len() {
        if raw[i..].starts_with(GET_TERM_SIZE) {
            i += GET_TERM_SIZE.len();
        } else {
            out.push(raw[i]);
            i += 1;
        }
    }
    out
}

fn ensure_signal_hook_installed() {
    // signal-hook keeps its process-wide handler installed once a signal was registered; the
    // terminal registers its own actions, this only guarantees that a raise() placed by the
    // scheduler can never hit the default (terminating) disposition.
    use std::sync::Once;
    static ONCE: Once = Once::new();
    ONCE.call_once(|| {
        for sig in [libc::SIGWINCH, libc::SIGTERM, libc::SIGINT, libc::SIGQUIT] {
            unsafe {
                let mut sa: libc::sigaction = std::mem::zeroed();
                sa.sa_sigaction = libc::SIG_IGN;
                libc::sigaction(sig, &sa, std::ptr::null_mut());
            }
        }
    });
}
