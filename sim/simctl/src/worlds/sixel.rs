//! World `sixel` (C12, narrow claim): the real `SixelImageHandler` over draw histories
//! with a tiny cache (hook H5) so that eviction and re-encoding happen constantly, a sink
//! that may fail, and a reference sixel interpreter that decodes every emitted sequence.
use crate::core::{Ctx, Tier, Violation, World, WorldResult};
use crate::tape::Src;
use std::collections::BTreeMap;
use std::io::Write;
use surf_n_term::{Color, Image, ImageHandler, Position, Shape, SixelImageHandler, Size, Surface, RGBA};

const P: &str = "C12";

pub fn world() -> World {
    World {
        name: "sixel",
        properties: &["C12"],
        run,
        real: &["image::SixelImageHandler::draw (encoder, LRU cache, eviction loop)", "image::Image::quantize, image::ColorPalette, octree, k-d tree"],
        stub: &["byte sink (hard error at byte k)", "reference sixel interpreter (DCS q, raster attributes, colour registers in RGB 0-100, repeat, $ and -, data bytes)"],
        assumptions: &[
            "what simulation adds to this property is its history-dependent part: cache hits, evictions and re-encodings on one handler (hook H5 builds the library with a cache of a few KiB); the per-image clauses are checked on every draw as an invariant",
            "sixel semantics as in the DEC manual / 'All about SIXELs': six vertical pixels per data byte (bit 0 on top), '!' repeat, '$' carriage return, '-' next band, '#n;2;r;g;b' defines register n in RGB 0..100, '#n' selects",
            "pixels are opaque, fully transparent (composited exactly onto the handler background) or partly transparent (composited over the background, then reduced to 0-100; judged against linear-light compositing with a tolerance of one level); the colours that count against the 256 registers are the composited ones",
            "images of at most 40x40 pixels are below the palette sampling threshold",
        ],
        rule: "one run = one handler (drawn background) and a history of 2..12 draws over a pool of 2..5 images (6..40 rows, 1..40 columns; few-colour images, many-colour images, cropped views, equal pixels under different allocations) with a sink that may fail at a drawn byte; non-trivial = an eviction or a re-draw of an image happened; distinct = distinct hash of (image classes, draw order, failure points)",
        runs: |_, tier| match tier {
            Tier::Quick => 60_000,
            Tier::Thorough => 3_000_000,
        },
        features: &[],
    }
}

struct Decoded {
    width: usize,
    height: usize,
    /// register index per pixel
    pixels: Vec<Option<usize>>,
    registers: BTreeMap<usize, (u8, u8, u8)>,
}

fn number(data: &[u8], pos: &mut usize) -> Option<usize> {
    let start = *pos;
    let mut value = 0usize;
    while *pos < data.len() && data[*pos].is_ascii_digit() {
        value = value.checked_mul(10)?.checked_add((data[*pos] - b'0') as usize)?;
        *pos += 1;
    }
    if *pos == start {
        None
    } else {
        Some(value)
    }
}

/// Reference sixel interpreter
fn decode_sixel(data: &[u8]) -> Result<Decoded, String> {
    if !data.starts_with(b"\x1bP") {
        return Err("does not start with DCS".to_string());
    }
    if !data.ends_with(b"\x1b\\") {
        return Err("does not end with ST".to_string());
    }
    let body = &data[2..data.len() - 2];
    if body.contains(&0x1b) {
        return Err("ESC inside the sixel sequence (more than one sequence?)".to_string());
    }
    let mut pos = 0;
    // optional parameters up to 'q'
    while pos < body.len() && (body[pos].is_ascii_digit() || body[pos] == b';') {
        pos += 1;
    }
    if body.get(pos) != Some(&b'q') {
        return Err("DCS is not a sixel sequence (no 'q')".to_string());
    }
    pos += 1;
    let mut width = 0;
    let mut height = 0;
    let mut have_raster = false;
    let mut registers: BTreeMap<usize, (u8, u8, u8)> = BTreeMap::new();
    let mut current: Option<usize> = None;
    let mut pixels: Vec<Option<usize>> = Vec::new();
    let (mut x, mut band) = (0usize, 0usize);
    let mut repeat = 1usize;
    while pos < body.len() {
        let byte = body[pos];
        match byte {
            b'"' => {
                pos += 1;
                let _pan = number(body, &mut pos).ok_or("raster: pan")?;
                if body.get(pos) != Some(&b';') {
                    return Err("raster attributes: missing ';'".into());
                }
                pos += 1;
                let _pad = number(body, &mut pos).ok_or("raster: pad")?;
                if body.get(pos) != Some(&b';') {
                    return Err("raster attributes: missing width".into());
                }
                pos += 1;
                width = number(body, &mut pos).ok_or("raster: width")?;
                if body.get(pos) != Some(&b';') {
                    return Err("raster attributes: missing height".into());
                }
                pos += 1;
                height = number(body, &mut pos).ok_or("raster: height")?;
                if have_raster {
                    return Err("raster attributes given twice".into());
                }
                have_raster = true;
                pixels = vec![None; width * height];
            }
            b'#' => {
                pos += 1;
                let reg = number(body, &mut pos).ok_or("colour: register number")?;
                if reg > 255 {
                    return Err(format!("colour register {reg} out of range"));
                }
                if body.get(pos) == Some(&b';') {
                    pos += 1;
                    let kind = number(body, &mut pos).ok_or("colour: coordinate system")?;
                    let mut comps = [0usize; 3];
                    for comp in comps.iter_mut() {
                        if body.get(pos) != Some(&b';') {
                            return Err("colour definition: missing component".into());
                        }
                        pos += 1;
                        *comp = number(body, &mut pos).ok_or("colour: component")?;
                    }
                    if kind != 2 {
                        return Err(format!("colour coordinate system {kind} (expected 2 = RGB)"));
                    }
                    if comps.iter().any(|c| *c > 100) {
                        return Err(format!("colour component out of 0..100: {:?}", comps));
                    }
                    registers.insert(reg, (comps[0] as u8, comps[1] as u8, comps[2] as u8));
                } else {
                    current = Some(reg);
                }
            }
            b'!' => {
                pos += 1;
                repeat = number(body, &mut pos).ok_or("repeat count")?;
                if repeat == 0 {
                    return Err("repeat count 0".into());
                }
            }
            b'$' => {
                pos += 1;
                x = 0;
            }
            b'-' => {
                pos += 1;
                x = 0;
                band += 1;
            }
            b'?'..=b'~' => {
                pos += 1;
                let bits = byte - b'?';
                if !have_raster {
                    return Err("data before raster attributes".into());
                }
                for _ in 0..repeat {
                    if bits != 0 {
                        let reg = current.ok_or("data with no colour selected")?;
                        if !registers.contains_key(&reg) {
                            return Err(format!("register {reg} used but never defined"));
                        }
                        for bit in 0..6 {
                            if bits & (1 << bit) != 0 {
                                let y = band * 6 + bit;
                                if x >= width || y >= height {
                                    return Err(format!("pixel ({x},{y}) painted outside the {width}x{height} raster"));
                                }
                                pixels[y * width + x] = Some(reg);
                            }
                        }
                    }
                    x += 1;
                }
                repeat = 1;
            }
            other => return Err(format!("unexpected byte {other:#x} at offset {pos}")),
        }
    }
    if !have_raster {
        return Err("no raster attributes".into());
    }
    Ok(Decoded { width, height, pixels, registers })
}

struct FailingSink {
    buf: Vec<u8>,
    fail_at: Option<usize>,
    failed: bool,
}

impl Write for FailingSink {
    fn write(&mut self, data: &[u8]) -> std::io::Result<usize> {
        if let Some(at) = self.fail_at {
            if self.buf.len() + data.len() > at {
                self.failed = true;
                return Err(std::io::Error::other("injected sink error"));
            }
        }
        self.buf.extend_from_slice(data);
        Ok(data.len())
    }

    fn flush(&mut self) -> std::io::Result<()> {
        Ok(())
    }
}

struct PoolImage {
    image: Image,
    class: &'static str,
    few_colours: bool,
}

fn gen_image(src: &mut Src, prev: Option<&PoolImage>) -> PoolImage {
    let h = 6 + src.draw(35) as usize;
    let w = 1 + src.draw(40) as usize;
    let kind = src.draw(10);
    let palette: Vec<RGBA> = (0..1 + src.draw(6)).map(|i| RGBA::new((i * 50 + src.draw(40)) as u8, (200 - i * 30) as u8, src.draw(256) as u8, 255)).collect();
    let transparent = src.chance(1, 4);
    // partly transparent pixels: alphas next to the ends and the middle of the range, on
    // colours far from the background so that a wrong coverage shows
    let semi = src.chance(1, 4);
    const ALPHAS: [u8; 8] = [1, 254, 128, 3, 4, 127, 200, 2];
    let alpha_shift = src.draw(8) as usize;
    let seed = src.draw(1 << 16);
    let few = |r: usize, c: usize| -> RGBA {
        let idx = (r * 7 + c * 3 + (r * c) % 5 + seed as usize) % palette.len();
        if transparent && (r + c) % 7 == 0 {
            RGBA::new(9, 9, 9, 0)
        } else if semi && (r * 3 + c) % 5 == 0 {
            let [red, green, blue, _] = if idx % 2 == 0 { [255, 255, 255, 255] } else { palette[idx].to_rgba() };
            RGBA::new(red, green, blue, ALPHAS[(idx + alpha_shift) % 3 + (alpha_shift / 3) * 3 % 6])
        } else {
            palette[idx]
        }
    };
    let many = |r: usize, c: usize| -> RGBA {
        let v = (r as u32 * 131 + c as u32 * 71 + seed).wrapping_mul(2654435761);
        RGBA::new((v >> 24) as u8, (v >> 16) as u8, (v >> 8) as u8, 255)
    };
    match kind {
        0 | 1 => {
            let data: Vec<RGBA> = (0..h * w).map(|i| few(i / w, i % w)).collect();
            PoolImage { image: Image::from_parts(data.into(), Shape::from(Size::new(h, w))), class: "few-colours", few_colours: true }
        }
        2 => {
            let data: Vec<RGBA> = (0..h * w).map(|i| many(i / w, i % w)).collect();
            PoolImage { image: Image::from_parts(data.into(), Shape::from(Size::new(h, w))), class: "many-colours", few_colours: h * w <= 256 }
        }
        8 => {
            // neighbouring colours: up to 256 opaque colours one or two 0-100 levels apart
            let n = *src.pick(&[256usize, 200, 101, 16]);
            let (h, w) = (18usize, 15 + src.draw(6) as usize);
            let base = src.draw(40) as usize;
            let data: Vec<RGBA> = (0..h * w)
                .map(|i| {
                    let k = (i * 7 + seed as usize) % n;
                    let level = |l: usize| ((l.min(100)) as f32 * 2.55).round() as u8;
                    RGBA::new(level(base + k % 16), level(base + k / 16), 77, 255)
                })
                .collect();
            PoolImage { image: Image::from_parts(data.into(), Shape::from(Size::new(h, w))), class: "neighbouring-colours", few_colours: true }
        }
        7 => {
            // two colours fading out: every alpha from 0 to 255 on each of them gives several
            // hundred distinct 8-bit colours once composited over the background, but fewer
            // than 256 at sixel's resolution - the picture must still be exact
            let (h, w) = (6usize, 86usize);
            let (first, second) = (palette[0], palette[palette.len() - 1]);
            let data: Vec<RGBA> = (0..h * w)
                .map(|i| {
                    let [red, green, blue, _] = if i < 256 { first.to_rgba() } else { second.to_rgba() };
                    if i < 512 {
                        RGBA::new(red, green, blue, (i % 256) as u8)
                    } else {
                        RGBA::new(0, 0, 0, 255)
                    }
                })
                .collect();
            PoolImage { image: Image::from_parts(data.into(), Shape::from(Size::new(h, w))), class: "two-colours-fading-out", few_colours: true }
        }
        6 => {
            // wide and flat: runs of one sixel code longer than 255 columns (a repeat count that
            // does not fit a byte), interrupted by marks of another colour, the run's colour
            // coming back after them
            let (h, w) = (*src.pick(&[6usize, 12]), 256 + src.draw(90) as usize);
            let mark_at = 1 + src.draw((w - 2) as u32) as usize;
            let mark_len = 1 + src.draw(3) as usize;
            let stripe_row = src.draw(h as u32) as usize;
            let data: Vec<RGBA> = (0..h * w)
                .map(|i| {
                    let (r, c) = (i / w, i % w);
                    if c >= mark_at && c < mark_at + mark_len && (r == stripe_row || seed % 2 == 0) {
                        palette[palette.len() - 1]
                    } else {
                        palette[0]
                    }
                })
                .collect();
            PoolImage { image: Image::from_parts(data.into(), Shape::from(Size::new(h, w))), class: "wide-flat-with-marks", few_colours: true }
        }
        5 => {
            // exactly n distinct colours at 0-100 resolution, around the palette size
            let n = *src.pick(&[256usize, 255, 257, 64, 2]);
            let (h, w) = (18usize, 15 + src.draw(6) as usize);
            let data: Vec<RGBA> = (0..h * w)
                .map(|i| {
                    let k = (i * 7 + seed as usize) % n;
                    // channel values that stay distinct after scaling to 0..100
                    RGBA::new(((k % 17) as f32 * 6.0 * 2.55).round() as u8, ((k / 17) as f32 * 6.0 * 2.55).round() as u8, 77, 255)
                })
                .collect();
            PoolImage { image: Image::from_parts(data.into(), Shape::from(Size::new(h, w))), class: "n-colours-around-palette-size", few_colours: n <= 256 }
        }
        3 => {
            // cropped view of a larger few-colour image
            // geometries: inner rectangle, full-width band below the top (rows stay back to
            // back in storage), columns only from the top, band at the bottom
            match src.draw(4) {
                0 => {
                    let (bh, bw) = (h + 3, w + 2);
                    let data: Vec<RGBA> = (0..bh * bw).map(|i| few(i / bw, i % bw)).collect();
                    let base = Image::from_parts(data.into(), Shape::from(Size::new(bh, bw)));
                    PoolImage { image: base.crop(2..2 + h, 1..1 + w), class: "cropped", few_colours: true }
                }
                1 => {
                    let bh = h + 7;
                    let data: Vec<RGBA> = (0..bh * w).map(|i| few(i / w, i % w)).collect();
                    let base = Image::from_parts(data.into(), Shape::from(Size::new(bh, w)));
                    PoolImage { image: base.crop(5..5 + h, ..), class: "cropped-full-width-band", few_colours: true }
                }
                2 => {
                    let bw = w + 3;
                    let data: Vec<RGBA> = (0..h * bw).map(|i| few(i / bw, i % bw)).collect();
                    let base = Image::from_parts(data.into(), Shape::from(Size::new(h, bw)));
                    PoolImage { image: base.crop(.., 2..2 + w), class: "cropped-columns", few_colours: true }
                }
                _ => {
                    let bh = h + 6;
                    let data: Vec<RGBA> = (0..bh * w).map(|i| few(i / w, i % w)).collect();
                    let base = Image::from_parts(data.into(), Shape::from(Size::new(bh, w)));
                    PoolImage { image: base.crop(6.., ..), class: "cropped-bottom-band", few_colours: true }
                }
            }
        }
        9 => match prev {
            // the picture before it with other alphas (a picture fading out, an icon whose shape
            // lives in its alpha mask): same shape, same red, green and blue in every pixel
            Some(prev) if prev.class == "few-colours" || prev.class == "same-colours-other-alpha" => {
                let size = prev.image.size();
                let data: Vec<RGBA> = prev
                    .image
                    .iter()
                    .enumerate()
                    .map(|(i, px)| {
                        let [red, green, blue, alpha] = px.to_rgba();
                        let alpha = match (i + alpha_shift) % 3 {
                            0 => 0,
                            1 => alpha,
                            _ if alpha == 255 => 128,
                            _ => 255,
                        };
                        RGBA::new(red, green, blue, alpha)
                    })
                    .collect();
                PoolImage { image: Image::from_parts(data.into(), Shape::from(size)), class: "same-colours-other-alpha", few_colours: true }
            }
            _ => {
                let data: Vec<RGBA> = (0..h * w).map(|i| few(i / w, i % w)).collect();
                PoolImage { image: Image::from_parts(data.into(), Shape::from(Size::new(h, w))), class: "few-colours", few_colours: true }
            }
        },
        _ => match prev {
            Some(prev) => {
                let size = prev.image.size();
                let data: Vec<RGBA> = prev.image.iter().copied().collect();
                PoolImage { image: Image::from_parts(data.into(), Shape::from(size)), class: "same-pixels-other-allocation", few_colours: prev.few_colours }
            }
            None => {
                let data: Vec<RGBA> = (0..h * w).map(|i| few(i / w, i % w)).collect();
                PoolImage { image: Image::from_parts(data.into(), Shape::from(Size::new(h, w))), class: "few-colours", few_colours: true }
            }
        },
    }
}

fn scale(v: u8) -> u8 {
    (v as f32 / 2.55).round() as u8
}

fn run(ctx: &Ctx, src: &mut Src) -> WorldResult {
    let bg = if src.chance(1, 2) { Some(RGBA::new(src.draw(256) as u8, 30, 200, 255)) } else { None };
    let mut handler = SixelImageHandler::new(bg);
    let count = 2 + src.draw(4) as usize;
    let mut pool: Vec<PoolImage> = Vec::new();
    for _ in 0..count {
        let img = gen_image(src, pool.last());
        pool.push(img);
    }
    src.log(|| format!("bg={:?} pool={:?}", bg.map(|c| c.to_rgba()), pool.iter().map(|p| format!("{}:{}x{}", p.class, p.image.height(), p.image.width())).collect::<Vec<_>>()));
    // one more pool entry is a frame buffer the application reuses: the same allocation is
    // overwritten in place between draws (animation), so identity of the storage says nothing
    // about the content
    let fb_size = Size::new(6 + src.draw(13) as usize, 1 + src.draw(12) as usize);
    let mut fb_data: std::sync::Arc<[RGBA]> = (0..fb_size.height * fb_size.width).map(|i| RGBA::new((i * 7) as u8, 10, 200, 255)).collect::<Vec<_>>().into();
    let mut fb_version = 0u32;
    let draws = 2 + src.draw(if ctx.tier == Tier::Quick { 6 } else { 11 }) as usize;
    // bytes emitted by the first successful draw of each image content
    let mut first: BTreeMap<u64, (usize, Vec<u8>)> = BTreeMap::new();
    let mut emitted_total = 0usize;
    for step in 0..draws {
        let idx = src.draw(pool.len() as u32 + 1) as usize;
        let fb_item;
        let item = if idx == pool.len() {
            if src.chance(1, 2) {
                // overwrite the frame buffer in place (no image refers to it at this point)
                fb_version += 1;
                if let Some(data) = std::sync::Arc::get_mut(&mut fb_data) {
                    for (i, px) in data.iter_mut().enumerate() {
                        *px = RGBA::new((i as u32 * 7 + fb_version * 40) as u8, (fb_version * 90) as u8, 200, 255);
                    }
                    src.probe("frame-buffer-overwritten-in-place");
                }
            }
            fb_item = PoolImage { image: Image::from_parts(fb_data.clone(), Shape::from(fb_size)), class: "reused-frame-buffer", few_colours: true };
            &fb_item
        } else {
            &pool[idx]
        };
        let fail_at = if src.chance(1, 8) { Some(src.draw(3000) as usize) } else { None };
        let mut sink = FailingSink { buf: Vec::new(), fail_at, failed: false };
        src.sig(0x600 + idx as u64 * 4 + fail_at.is_some() as u64);
        let res = handler.draw(&mut sink, &item.image, Position::origin());
        src.log(|| format!("#{step} draw({}:{}x{}) fail_at={:?} -> {} bytes, {:?}", item.class, item.image.height(), item.image.width(), fail_at, sink.buf.len(), res.is_ok()));
        if res.is_err() || sink.failed {
            src.fault("sink-hard-error");
            continue;
        }
        let content = item.image.hash();
        // ---- history clause: same image drawn again on this handler emits identical bytes
        if let Some((at, bytes)) = first.get(&content) {
            src.nontrivial = true;
            src.probe("image-drawn-again");
            if emitted_total > 6000 {
                src.probe("re-draw-after-eviction-pressure");
            }
            if *bytes != sink.buf {
                // do the two byte strings at least decode to the same picture?
                let same_picture = match (decode_sixel(bytes), decode_sixel(&sink.buf)) {
                    (Ok(a), Ok(b)) => {
                        a.width == b.width
                            && a.height == b.height
                            && a.pixels.iter().zip(b.pixels.iter()).all(|(x, y)| x.map(|r| a.registers.get(&r)) == y.map(|r| b.registers.get(&r)))
                    }
                    _ => false,
                };
                return Err(Violation::new(
                    P,
                    "C12.redraw-differs",
                    if same_picture { "same-picture-different-bytes" } else { "different-picture" },
                    format!(
                        "draw #{step} of image {} ({}x{}) emitted {} bytes that differ from the {} bytes emitted by draw #{at} of the same image on the same handler (decoded pictures {})",
                        item.class,
                        item.image.height(),
                        item.image.width(),
                        sink.buf.len(),
                        bytes.len(),
                        if same_picture { "equal" } else { "differ" }
                    ),
                ));
            }
        } else {
            first.insert(content, (step, sink.buf.clone()));
        }
        emitted_total += sink.buf.len();
        // ---- per draw invariant: one well formed sequence that decodes to the declared raster
        let decoded = decode_sixel(&sink.buf).map_err(|e| Violation::new(P, "C12.malformed", "malformed-sequence", format!("draw #{step} ({}x{} {}): {e}", item.image.height(), item.image.width(), item.class)))?;
        let want_h = item.image.height() / 6 * 6;
        let want_w = item.image.width();
        if decoded.width != want_w || decoded.height != want_h {
            return Err(Violation::new(P, "C12.size", "declared-size", format!("image {}x{} declared as {}x{} (expected {}x{})", item.image.height(), want_w, decoded.height, decoded.width, want_h, want_w)));
        }
        if let Some(at) = decoded.pixels.iter().position(|p| p.is_none()) {
            return Err(Violation::new(P, "C12.unpainted", "pixel-not-painted", format!("pixel ({}, {}) of the {}x{} raster is never painted", at % want_w, at / want_w, want_h, want_w)));
        }
        if decoded.registers.len() > 256 {
            return Err(Violation::new(P, "C12.registers", "too-many-registers", format!("{} colour registers", decoded.registers.len())));
        }
        // ---- exactness when the colours fit the palette
        let background = bg.unwrap_or(RGBA::new(0, 0, 0, 255));
        let mut expect: Vec<(u8, u8, u8)> = Vec::with_capacity(want_h * want_w);
        // partly transparent pixels are judged against "over" in linear light with a tolerance of
        // one level (the library's transfer functions stay within 0.21 levels of the exact ones:
        // `simctl survey-blend`)
        let mut tolerant: Vec<bool> = Vec::with_capacity(want_h * want_w);
        for r in 0..want_h {
            for c in 0..want_w {
                let px = *item.image.get(Position::new(r, c)).unwrap();
                let [red, green, blue, alpha] = px.to_rgba();
                if alpha == 0 || alpha == 255 {
                    let [red, green, blue] = if alpha == 0 { background.to_rgb() } else { [red, green, blue] };
                    expect.push((scale(red), scale(green), scale(blue)));
                    tolerant.push(false);
                } else {
                    src.probe("partly-transparent-pixel-judged");
                    let [bred, bgreen, bblue] = background.to_rgb();
                    // composited over the background, then reduced to sixel's resolution
                    let level = |fg: u8, bg: u8| (exact_over(fg, alpha, bg) / 2.55).round() as u8;
                    expect.push((level(red, bred), level(green, bgreen), level(blue, bblue)));
                    tolerant.push(true);
                }
            }
        }
        // the colours that count against the 256 registers are the ones that are shown:
        // composited over the background (with the library's own compositing, which stays
        // within half an 8-bit step of the exact one but may round a boundary case the other
        // way) and reduced to sixel's resolution
        let distinct: std::collections::BTreeSet<(u8, u8, u8)> = (0..want_h * want_w)
            .map(|i| {
                let px = *item.image.get(Position::new(i / want_w, i % want_w)).unwrap();
                let [red, green, blue] = if px.to_rgba()[3] < 255 { background.blend_over(px).to_rgb() } else { px.to_rgb() };
                (scale(red), scale(green), scale(blue))
            })
            .collect();
        if distinct.len() <= 256 {
            src.probe("colours-fit-palette");
            for (at, (want, got)) in expect.iter().zip(decoded.pixels.iter()).enumerate() {
                let got = decoded.registers[&got.unwrap()];
                let near = |a: u8, b: u8| a.abs_diff(b) <= 1;
                if tolerant[at] && near(got.0, want.0) && near(got.1, want.1) && near(got.2, want.2) {
                    continue;
                }
                if got != *want {
                    return Err(Violation::new(
                        P,
                        "C12.inexact",
                        if item.few_colours { "few-colours" } else { "many-colours" },
                        format!(
                            "image {} {}x{} has {} distinct colours at 0-100 resolution but pixel ({}, {}) decodes to {:?} instead of {:?}",
                            item.class,
                            want_h,
                            want_w,
                            distinct.len(),
                            at % want_w,
                            at / want_w,
                            got,
                            want
                        ),
                    ));
                }
            }
        } else {
            // ---- more colours than registers: the picture must be the library's own quantised
            // image (quantisation itself is a pure function, property C13, not judged here):
            // what is checked is that the sixel assembly represents that index image faithfully
            src.probe("more-colours-than-registers-judged-against-quantised-image");
            let reduced = Image::from(item.image.view(..want_h, ..).map(|_, color| {
                let [red, green, blue, alpha] = color.to_rgba();
                let [red, green, blue] = if alpha < 255 { background.blend_over(*color).to_rgb() } else { [red, green, blue] };
                let snap = |v: u8| ((v as f32 / 2.55).round() * 2.55) as u8;
                RGBA::new(snap(red), snap(green), snap(blue), 255)
            }));
            if let Some((palette, indices)) = reduced.quantize(256, true, bg) {
                for (at, got) in decoded.pixels.iter().enumerate() {
                    let got = decoded.registers[&got.unwrap()];
                    let idx = *indices.get(Position::new(at / want_w, at % want_w)).unwrap();
                    let [red, green, blue] = palette.colors()[idx].to_rgb();
                    let want = (scale(red), scale(green), scale(blue));
                    if got != want {
                        return Err(Violation::new(
                            P,
                            "C12.not-the-quantised-image",
                            "many-colours",
                            format!(
                                "image {} {}x{} ({} distinct colours): pixel ({}, {}) decodes to {:?} but the quantised image has palette entry {} = {:?} there",
                                item.class,
                                want_h,
                                want_w,
                                distinct.len(),
                                at % want_w,
                                at / want_w,
                                got,
                                idx,
                                want
                            ),
                        ));
                    }
                }
            }
        }
    }
    Ok(())
}


// ---------------------------------------------------------------- compositing reference

fn srgb_to_linear(v: f64) -> f64 {
    if v <= 0.04045 {
        v / 12.92
    } else {
        ((v + 0.055) / 1.055).powf(2.4)
    }
}

fn linear_to_srgb(v: f64) -> f64 {
    if v <= 0.0031308 {
        v * 12.92
    } else {
        1.055 * v.powf(1.0 / 2.4) - 0.055
    }
}

/// "over" in linear light (IEC 61966-2-1 transfer functions), result as an 8-bit channel value
pub(crate) fn exact_over(fg: u8, alpha: u8, bg: u8) -> f64 {
    let a = alpha as f64 / 255.0;
    let lin = a * srgb_to_linear(fg as f64 / 255.0) + (1.0 - a) * srgb_to_linear(bg as f64 / 255.0);
    linear_to_srgb(lin) * 255.0
}

/// survey: largest distance (in 0-100 levels) between the library's compositing and the
/// reference over all alphas and a grid of channel values (`simctl survey-blend`)
pub fn survey_blend() {
    let mut worst = (0.0f64, 0u8, 0u8, 0u8);
    let mut hist = [0u64; 8];
    for alpha in 0..=255u8 {
        for fg in (0..=255u16).step_by(3) {
            for bg in (0..=255u16).step_by(5) {
                let (fg, bg) = (fg as u8, bg as u8);
                let lib = RGBA::new(bg, bg, bg, 255).blend_over(RGBA::new(fg, fg, fg, alpha)).to_rgba()[0];
                let want = exact_over(fg, alpha, bg);
                let d = ((lib as f64) / 2.55 - want / 2.55).abs();
                hist[(d.floor() as usize).min(7)] += 1;
                if d > worst.0 {
                    worst = (d, alpha, fg, bg);
                }
            }
        }
    }
    println!("worst distance {:.3} levels at alpha={} fg={} bg={}; histogram by whole levels {:?}", worst.0, worst.1, worst.2, worst.3, hist);
}
