//! Simulated worlds, one per seam
use crate::core::World;

pub mod base64;
pub mod decode;
pub mod kitty;
pub mod queue;
pub mod render;
pub mod sgr;
pub mod sixel;
pub mod text;
pub mod tty;

pub fn all() -> Vec<World> {
    vec![base64::world(), queue::world(), decode::world(), tty::world(), tty::full_world(), render::world(), sgr::world(), kitty::world(), text::world(), sixel::world()]
}
