//! simctl - deterministic simulation with fault injection for surf-n-term
mod core;
mod sup;
mod tape;
mod worker;
mod worlds;

use crate::core::{install_panic_hook, run_one, run_seed, Ctx, Outcome, Tier};
use crate::tape::Src;
use std::io::Read;

fn parse_list(s: &str) -> Vec<String> {
    s.split(',').filter(|s| !s.is_empty()).map(String::from).collect()
}

fn env_seed() -> u64 {
    std::env::var("VERIF_SEED")
        .ok()
        .and_then(|s| s.trim().parse::<i64>().ok().map(|v| v as u64).or_else(|| s.trim().parse::<u64>().ok()))
        .unwrap_or(20260926)
}

fn usage() -> i32 {
    eprintln!(
        "usage:\n  simctl check <property> <quick|thorough> [--runs N] [--workers N] [--deadline SECS] [--no-evidence]\n  simctl replay <file>\n  simctl determinism <property> <n>\n  simctl list"
    );
    2
}

fn main() {
    install_panic_hook();
    let args: Vec<String> = std::env::args().collect();
    let worlds = worlds::all();
    let code = match args.get(1).map(|s| s.as_str()) {
        Some("survey-blend") => {
            worlds::sixel::survey_blend();
            0
        }
        Some("list") => {
            for w in worlds.iter() {
                println!("{} {:?}", w.name, w.properties);
            }
            0
        }
        Some("check") => {
            if args.len() < 4 {
                std::process::exit(usage());
            }
            let Some(tier) = Tier::parse(&args[3]) else { std::process::exit(usage()) };
            let mut check = sup::CheckArgs {
                prop: args[2].clone(),
                tier,
                seed: env_seed(),
                runs: None,
                workers: std::thread::available_parallelism().map(|n| n.get()).unwrap_or(4).min(16),
                deadline_secs: if tier == Tier::Quick { 240 } else { 3000 },
                no_evidence: false,
                only_world: None,
            };
            let mut i = 4;
            while i < args.len() {
                match args[i].as_str() {
                    "--runs" => {
                        check.runs = args.get(i + 1).and_then(|s| s.parse().ok());
                        i += 1;
                    }
                    "--workers" => {
                        check.workers = args.get(i + 1).and_then(|s| s.parse().ok()).unwrap_or(check.workers);
                        i += 1;
                    }
                    "--deadline" => {
                        check.deadline_secs = args.get(i + 1).and_then(|s| s.parse().ok()).unwrap_or(check.deadline_secs);
                        i += 1;
                    }
                    "--seed" => {
                        check.seed = args.get(i + 1).and_then(|s| s.parse().ok()).unwrap_or(check.seed);
                        i += 1;
                    }
                    "--no-evidence" => check.no_evidence = true,
                    "--world" => {
                        // sensitivity / debugging only: evidence is not written for a partial check
                        check.only_world = args.get(i + 1).cloned();
                        check.no_evidence = std::env::var_os("VERIF_EVIDENCE_DIR").is_none();
                        i += 1;
                    }
                    _ => {}
                }
                i += 1;
            }
            sup::check_main(&worlds, check)
        }
        Some("worker") => {
            limit_memory();
            // worker <world> <prop> <tier> <seed> <start> <stride> <count> <deadline> <avoid>
            let world = worlds.iter().find(|w| w.name == args[2]).expect("world");
            let wargs = worker::WorkerArgs {
                prop: args[3].clone(),
                tier: Tier::parse(&args[4]).expect("tier"),
                seed: args[5].parse().expect("seed"),
                start: args[6].parse().expect("start"),
                stride: args[7].parse().expect("stride"),
                count: args[8].parse().expect("count"),
                deadline_secs: args[9].parse().expect("deadline"),
                avoid: parse_list(args.get(10).map(|s| s.as_str()).unwrap_or("")),
                avoid_mod: 8,
                min_budget: 3000,
                run_timeout_secs: 10,
            };
            worker::worker_main(world, wargs)
        }
        Some("exec-tape") => {
            // exec-tape <world> <prop> <tier> <avoid>   (tape as JSON on stdin)
            limit_memory();
            core::set_quiet(false);
            let world = worlds.iter().find(|w| w.name == args[2]).expect("world");
            let ctx = Ctx {
                prop: args[3].clone(),
                tier: Tier::parse(&args[4]).expect("tier"),
                avoid: parse_list(args.get(5).map(|s| s.as_str()).unwrap_or("")),
            };
            let mut text = String::new();
            std::io::stdin().read_to_string(&mut text).expect("stdin");
            let tape: Vec<u32> = serde_json::from_str(&text).expect("tape json");
            let value = worker::exec_tape(world, &ctx, &tape);
            println!("{}", value);
            if value["outcome"] == "harness_error" {
                2
            } else {
                0
            }
        }
        Some("exec-index") => {
            // exec-index <world> <prop> <tier> <avoid> <seed> <index>
            limit_memory();
            core::set_quiet(false);
            let world = worlds.iter().find(|w| w.name == args[2]).expect("world");
            let ctx = Ctx {
                prop: args[3].clone(),
                tier: Tier::parse(&args[4]).expect("tier"),
                avoid: parse_list(args.get(5).map(|s| s.as_str()).unwrap_or("")),
            };
            let seed: u64 = args[6].parse().expect("seed");
            let index: u64 = args[7].parse().expect("index");
            let mut src = Src::record(run_seed(seed, world.name, &ctx.prop, index));
            src.stream = true;
            match run_one(world, &ctx, &mut src) {
                Outcome::HarnessError(msg) => {
                    eprintln!("{msg}");
                    2
                }
                _ => 0,
            }
        }
        Some("replay") => {
            if args.len() < 3 {
                std::process::exit(usage());
            }
            match sup::replay_file(std::path::Path::new(&args[2]), &worlds) {
                Ok((true, msg, violation)) => {
                    println!("[simctl] {msg}");
                    if let Some(v) = violation {
                        println!("[simctl] detail: {}", v.detail);
                        println!("VIOLATION property={} replay={}", v.property, args[2]);
                    }
                    1
                }
                Ok((false, msg, _)) => {
                    println!("[simctl] not reproduced: {msg}");
                    0
                }
                Err(msg) => {
                    eprintln!("[simctl] HARNESS ERROR: {msg}");
                    2
                }
            }
        }
        Some("show") => {
            // show <file>: print trace of replay file (re-executed in-process)
            let text = std::fs::read_to_string(&args[2]).expect("read");
            let rec: serde_json::Value = serde_json::from_str(&text).expect("json");
            let world = worlds.iter().find(|w| Some(w.name) == rec["world"].as_str()).expect("world");
            let ctx = Ctx {
                prop: rec["property"].as_str().unwrap().to_string(),
                tier: Tier::parse(rec["tier"].as_str().unwrap_or("quick")).unwrap(),
                avoid: rec["avoid"].as_array().map(|a| a.iter().filter_map(|x| x.as_str().map(String::from)).collect()).unwrap_or_default(),
            };
            let tape: Vec<u32> = rec["tape"].as_array().unwrap().iter().map(|v| v.as_u64().unwrap() as u32).collect();
            let (outcome, trace, _) = worker::replay_traced(world, &ctx, &tape);
            for line in trace {
                println!("{line}");
            }
            match outcome {
                Outcome::Ok => println!("=> ok"),
                Outcome::Violation(v) => println!("=> {:?}", v),
                Outcome::HarnessError(e) => println!("=> harness error {e}"),
            }
            0
        }
        Some("determinism") => {
            // determinism <prop> <n>: run n indices twice in-process (different order) and
            // compare outcome and trace hashes; cross-process comparison is done by `check` script
            let prop = args[2].clone();
            let n: u64 = args.get(3).and_then(|s| s.parse().ok()).unwrap_or(200);
            let start: u64 = args.get(4).and_then(|s| s.parse().ok()).unwrap_or(0);
            core::set_quiet(true);
            let seed = env_seed();
            let ctx = Ctx { prop: prop.clone(), tier: Tier::Quick, avoid: vec![] };
            for index in start..start + n {
                // every world that serves the property
                for world in worlds.iter().filter(|w| w.properties.contains(&prop.as_str())) {
                    let mut src = Src::record(run_seed(seed, world.name, &prop, index));
                    src.enable_trace();
                    let outcome = run_one(world, &ctx, &mut src);
                    let trace = src.take_trace();
                    let o = match outcome {
                        Outcome::Ok => "ok".to_string(),
                        Outcome::Violation(v) => v.key(),
                        Outcome::HarnessError(e) => format!("HARNESS:{e}"),
                    };
                    println!("{} {} {:016x} {:016x} {} {}", index, world.name, worker::trace_hash(&trace), src.sig, src.used.len(), o);
                }
            }
            0
        }
        _ => usage(),
    };
    std::process::exit(code);
}

/// Address-space cap for processes that execute runs: code under test that spins while
/// allocating dies with an allocation failure (an attributable abort) instead of taking
/// the machine down. SIMCTL_MEM_LIMIT_MB overrides the 3 GiB default, 0 disables.
fn limit_memory() {
    let mb: u64 = std::env::var("SIMCTL_MEM_LIMIT_MB").ok().and_then(|v| v.parse().ok()).unwrap_or(3072);
    if mb == 0 {
        return;
    }
    let lim = libc::rlimit { rlim_cur: mb << 20, rlim_max: mb << 20 };
    unsafe {
        libc::setrlimit(libc::RLIMIT_AS, &lim);
    }
}
