//! Supervisor: spawns worker processes, attributes aborts and hangs, minimises,
//! confirms replays, applies the known-findings protocol and writes evidence.
use crate::core::{minimise, Tier, Violation, World};
use serde_json::{json, Value};
use std::collections::{BTreeMap, BTreeSet};
use std::io::{BufRead, BufReader, Read, Write};
use std::os::unix::process::ExitStatusExt;
use std::path::{Path, PathBuf};
use std::process::{Command, Stdio};
use std::time::{Duration, Instant};

pub fn verif_root() -> PathBuf {
    PathBuf::from(std::env::var("VERIF_ROOT").unwrap_or_else(|_| "/verif".to_string()))
}

fn self_exe() -> PathBuf {
    std::env::current_exe().expect("current exe")
}

pub struct CheckArgs {
    pub prop: String,
    pub tier: Tier,
    pub seed: u64,
    pub runs: Option<u64>,
    pub workers: usize,
    pub deadline_secs: u64,
    pub no_evidence: bool,
    /// debugging / sensitivity runs: only this world (implies nothing about the others)
    pub only_world: Option<String>,
}

#[derive(Default)]
struct Agg {
    runs: u64,
    faults: BTreeMap<String, u64>,
    probes: BTreeMap<String, u64>,
    steps: u64,
    sim_ns: u64,
    nontrivial: u64,
    violating_runs: u64,
    draws: u64,
    truncated: bool,
    samples: Vec<Value>,
    sigs: BTreeSet<u64>,
    all_sigs: BTreeSet<u64>,
    violation_keys: BTreeMap<String, u64>,
}

impl Agg {
    fn merge(&mut self, s: &Value) {
        self.runs += s["runs"].as_u64().unwrap_or(0);
        self.steps += s["steps"].as_u64().unwrap_or(0);
        self.sim_ns += s["sim_ns"].as_u64().unwrap_or(0);
        self.nontrivial += s["nontrivial"].as_u64().unwrap_or(0);
        self.violating_runs += s["violating_runs"].as_u64().unwrap_or(0);
        self.draws += s["draws"].as_u64().unwrap_or(0);
        self.truncated |= s["truncated"].as_bool().unwrap_or(false);
        for (name, dst) in [("faults", &mut self.faults), ("probes", &mut self.probes), ("violation_keys", &mut self.violation_keys)] {
            if let Some(map) = s[name].as_object() {
                for (k, v) in map {
                    *dst.entry(k.clone()).or_default() += v.as_u64().unwrap_or(0);
                }
            }
        }
        if let Some(samples) = s["samples"].as_array() {
            for sample in samples {
                if self.samples.len() < 4 {
                    self.samples.push(sample.clone());
                }
            }
        }
        for (name, dst) in [("sigs", &mut self.sigs), ("all_sigs", &mut self.all_sigs)] {
            if let Some(blob) = s[name].as_str() {
                let bytes = blob.as_bytes();
                for chunk in bytes.chunks(16) {
                    if let Ok(text) = std::str::from_utf8(chunk) {
                        if let Ok(v) = u64::from_str_radix(text, 16) {
                            dst.insert(v);
                        }
                    }
                }
            }
        }
    }
}

enum WorkerEnd {
    Done,
    /// worker died (signal / watchdog) while executing this index
    Died { index: u64, how: String },
    /// worker died while minimising violation found at this index (record is unminimised)
    DiedMinimising { index: u64, record: Value },
    HarnessError(String),
}

struct WorkerOut {
    end: WorkerEnd,
    summary: Option<Value>,
    violations: Vec<Value>,
    last_index: Option<u64>,
}

#[allow(clippy::too_many_arguments)]
fn spawn_worker(
    world: &World,
    args: &CheckArgs,
    avoid: &[String],
    start: u64,
    stride: u64,
    count: u64,
    deadline_secs: u64,
) -> std::process::Child {
    let mut cmd = Command::new(self_exe());
    cmd.arg("worker")
        .arg(world.name)
        .arg(&args.prop)
        .arg(args.tier.name())
        .arg(args.seed.to_string())
        .arg(start.to_string())
        .arg(stride.to_string())
        .arg(count.to_string())
        .arg(deadline_secs.to_string())
        .arg(avoid.join(","))
        .env("RUST_BACKTRACE", "0")
        .stdin(Stdio::null())
        .stdout(Stdio::piped())
        .stderr(Stdio::piped());
    cmd.spawn().expect("failed to spawn worker")
}

fn collect_worker(mut child: std::process::Child) -> WorkerOut {
    let stdout = child.stdout.take().unwrap();
    let mut stderr = child.stderr.take().unwrap();
    let err_thread = std::thread::spawn(move || {
        let mut buf = Vec::new();
        let _ = stderr.read_to_end(&mut buf);
        buf
    });
    let mut last_index = None;
    let mut summary = None;
    let mut violations = Vec::new();
    let mut harness_error = None;
    let mut hang = None;
    let mut minimising: Option<Value> = None;
    for line in BufReader::new(stdout).split(b'\n') {
        let Ok(line) = line else { break };
        if line.len() < 2 {
            continue;
        }
        let body = &line[2..];
        match line[0] {
            b'b' => {
                last_index = std::str::from_utf8(body).ok().and_then(|s| s.trim().parse().ok());
            }
            b'h' => {
                hang = std::str::from_utf8(body).ok().and_then(|s| s.trim().parse::<u64>().ok());
            }
            b'u' => {
                minimising = serde_json::from_slice::<Value>(body).ok();
            }
            b'v' => {
                minimising = None;
                if let Ok(v) = serde_json::from_slice::<Value>(body) {
                    violations.push(v);
                }
            }
            b's' => {
                summary = serde_json::from_slice::<Value>(body).ok();
            }
            b'e' => {
                harness_error = Some(String::from_utf8_lossy(body).to_string());
            }
            _ => {}
        }
    }
    let status = child.wait().expect("wait worker");
    let stderr = err_thread.join().unwrap_or_default();
    let end = if let Some(msg) = harness_error {
        WorkerEnd::HarnessError(msg)
    } else if let Some(index) = hang {
        WorkerEnd::Died {
            index,
            how: "hang".to_string(),
        }
    } else if status.success() && summary.is_some() {
        WorkerEnd::Done
    } else if let (Some(record), Some(index)) = (minimising, last_index) {
        WorkerEnd::DiedMinimising { index, record }
    } else if let Some(index) = last_index {
        let how = match status.signal() {
            Some(sig) => format!("signal {}", sig),
            None => format!("exit {:?}", status.code()),
        };
        let tail = String::from_utf8_lossy(&stderr);
        let tail: String = tail.chars().rev().take(600).collect::<String>().chars().rev().collect();
        WorkerEnd::Died {
            index,
            how: format!("{how}; stderr tail: {tail}"),
        }
    } else {
        WorkerEnd::HarnessError(format!(
            "worker failed before first run: {:?}: {}",
            status,
            String::from_utf8_lossy(&stderr)
        ))
    };
    WorkerOut {
        end,
        summary,
        violations,
        last_index,
    }
}

/// Result of executing tape in child process
#[derive(Debug, Clone)]
pub enum ChildOutcome {
    Ok,
    Violation { violation: Violation, trace_hash: String, trace: Vec<String> },
    Died { signature: String, detail: String },
    HarnessError(String),
}

fn crash_signature(status: &std::process::ExitStatus, stderr: &str, hang: bool) -> (String, String) {
    if hang {
        return ("hang".to_string(), "run did not terminate within the watchdog limit".to_string());
    }
    let sig = status.signal().map(|s| format!("signal{}", s)).unwrap_or_else(|| format!("exit{:?}", status.code()));
    // find panic location / message in stderr
    let mut loc = String::new();
    let mut msg = String::new();
    for line in stderr.lines() {
        if let Some(idx) = line.find("panicked at ") {
            let rest = &line[idx + "panicked at ".len()..];
            let rest = rest.trim_end_matches(':');
            // strip column
            let mut parts: Vec<&str> = rest.rsplitn(2, ':').collect();
            parts.reverse();
            loc = parts.first().map(|s| s.to_string()).unwrap_or_default();
            // shorten path
            if let Some(idx) = loc.rfind("/src/") {
                let head = &loc[..idx];
                let krate = head.rsplit('/').next().unwrap_or("");
                loc = format!("{}{}", krate, &loc[idx..]);
            }
        } else if !loc.is_empty() && msg.is_empty() && !line.trim().is_empty() {
            msg = line.trim().to_string();
        }
    }
    let signature = if loc.is_empty() && stderr.contains("memory allocation of") {
        msg = "allocation failed under the address-space cap (unbounded memory growth)".to_string();
        "abort(out-of-memory)".to_string()
    } else if loc.is_empty() {
        format!("abort({})", sig)
    } else {
        format!("abort({})@{}", sig, loc)
    };
    (signature, format!("process died: {}; {} {}", sig, loc, msg))
}

/// Execute tape in a fresh child process
/// Processor time a child has used so far (user + system, from /proc): limits on a single run
/// are measured in it, so that a child that gets no processor on a loaded machine is not taken
/// for a hang; a wall-clock limit twelve times as long catches a run that sleeps for ever.
fn child_cpu(pid: u32) -> Duration {
    let Ok(stat) = std::fs::read_to_string(format!("/proc/{pid}/stat")) else { return Duration::ZERO };
    // fields after the parenthesised command name: state is the 1st, utime the 12th, stime the 13th
    let Some(rest) = stat.rsplit_once(')').map(|(_, rest)| rest) else { return Duration::ZERO };
    let fields: Vec<&str> = rest.split_whitespace().collect();
    let ticks: u64 = [11usize, 12].iter().filter_map(|i| fields.get(*i).and_then(|f| f.parse::<u64>().ok())).sum();
    let hz = unsafe { libc::sysconf(libc::_SC_CLK_TCK) }.max(1) as u64;
    Duration::from_millis(ticks * 1000 / hz)
}

fn overdue(pid: u32, started: Instant, limit: Duration) -> bool {
    child_cpu(pid) > limit || started.elapsed() > limit * 12
}

pub fn exec_child(world: &World, prop: &str, tier: Tier, avoid: &[String], tape: &[u32], timeout: Duration) -> ChildOutcome {
    let mut cmd = Command::new(self_exe());
    cmd.arg("exec-tape")
        .arg(world.name)
        .arg(prop)
        .arg(tier.name())
        .arg(avoid.join(","))
        .env("RUST_BACKTRACE", "0")
        .stdin(Stdio::piped())
        .stdout(Stdio::piped())
        .stderr(Stdio::piped());
    let mut child = cmd.spawn().expect("spawn exec-tape");
    {
        let mut stdin = child.stdin.take().unwrap();
        let text = serde_json::to_string(tape).unwrap();
        let _ = stdin.write_all(text.as_bytes());
    }
    let mut stdout = child.stdout.take().unwrap();
    let mut stderr = child.stderr.take().unwrap();
    let out_thread = std::thread::spawn(move || {
        let mut buf = Vec::new();
        let _ = stdout.read_to_end(&mut buf);
        buf
    });
    let err_thread = std::thread::spawn(move || {
        let mut buf = Vec::new();
        let _ = stderr.read_to_end(&mut buf);
        buf
    });
    let started = Instant::now();
    let mut hang = false;
    let status = loop {
        match child.try_wait() {
            Ok(Some(status)) => break status,
            Ok(None) => {
                if overdue(child.id(), started, timeout) {
                    hang = true;
                    let _ = child.kill();
                    break child.wait().expect("wait");
                }
                std::thread::sleep(Duration::from_millis(2));
            }
            Err(err) => return ChildOutcome::HarnessError(format!("wait failed: {err}")),
        }
    };
    let stdout = out_thread.join().unwrap_or_default();
    let stderr = String::from_utf8_lossy(&err_thread.join().unwrap_or_default()).to_string();
    if hang || !status.success() {
        if status.code() == Some(2) {
            return ChildOutcome::HarnessError(format!("exec-tape harness error: {}", stderr));
        }
        let (signature, detail) = crash_signature(&status, &stderr, hang);
        return ChildOutcome::Died { signature, detail };
    }
    let Ok(value) = serde_json::from_slice::<Value>(&stdout) else {
        return ChildOutcome::HarnessError(format!("bad exec-tape output: {}", String::from_utf8_lossy(&stdout)));
    };
    match value["outcome"].as_str() {
        Some("ok") => ChildOutcome::Ok,
        Some("violation") => ChildOutcome::Violation {
            violation: Violation::from_json(&value["violation"]).expect("violation json"),
            trace_hash: value["trace_hash"].as_str().unwrap_or("").to_string(),
            trace: value["trace"]
                .as_array()
                .map(|a| a.iter().filter_map(|v| v.as_str().map(String::from)).collect())
                .unwrap_or_default(),
        },
        _ => ChildOutcome::HarnessError(value["error"].as_str().unwrap_or("unknown").to_string()),
    }
}

/// Obtain tape of run `index` (record mode) without executing the world: the tape is
/// whatever PRNG produces, so a replay tape is simply a long enough PRNG prefix.
fn prng_tape(seed: u64, world: &World, prop: &str, index: u64, len: usize) -> Vec<u32> {
    // identical to Src::record draws *before* reduction modulo n, so we can not reproduce
    // reduced values here; instead child is asked to run in record mode, see `exec-index`.
    let _ = (seed, world, prop, index, len);
    Vec::new()
}

/// Execute run by index in a fresh child (record mode), returns used tape if child survives
fn exec_index_child(world: &World, args: &CheckArgs, avoid: &[String], index: u64) -> (ChildOutcome, Option<Vec<u32>>) {
    let _ = prng_tape;
    let mut cmd = Command::new(self_exe());
    cmd.arg("exec-index")
        .arg(world.name)
        .arg(&args.prop)
        .arg(args.tier.name())
        .arg(avoid.join(","))
        .arg(args.seed.to_string())
        .arg(index.to_string())
        .env("RUST_BACKTRACE", "0")
        .stdin(Stdio::null())
        .stdout(Stdio::piped())
        .stderr(Stdio::piped());
    let mut child = cmd.spawn().expect("spawn exec-index");
    let mut stdout = child.stdout.take().unwrap();
    let mut stderr = child.stderr.take().unwrap();
    let out_thread = std::thread::spawn(move || {
        let mut buf = Vec::new();
        let _ = stdout.read_to_end(&mut buf);
        buf
    });
    let err_thread = std::thread::spawn(move || {
        let mut buf = Vec::new();
        let _ = stderr.read_to_end(&mut buf);
        buf
    });
    let started = Instant::now();
    let mut hang = false;
    let status = loop {
        match child.try_wait() {
            Ok(Some(status)) => break status,
            Ok(None) => {
                if overdue(child.id(), started, Duration::from_secs(15)) {
                    hang = true;
                    let _ = child.kill();
                    break child.wait().expect("wait");
                }
                std::thread::sleep(Duration::from_millis(2));
            }
            Err(err) => return (ChildOutcome::HarnessError(format!("wait failed: {err}")), None),
        }
    };
    let stdout = out_thread.join().unwrap_or_default();
    let stderr = String::from_utf8_lossy(&err_thread.join().unwrap_or_default()).to_string();
    // the child streams the tape values it draws to stdout as "t <value>" lines before using them
    let mut tape = Vec::new();
    for line in stdout.split(|b| *b == b'\n') {
        if line.starts_with(b"t ") {
            if let Some(v) = std::str::from_utf8(&line[2..]).ok().and_then(|s| s.trim().parse::<u32>().ok()) {
                tape.push(v);
            }
        }
    }
    if hang || !status.success() {
        let (signature, detail) = crash_signature(&status, &stderr, hang);
        return (ChildOutcome::Died { signature, detail }, Some(tape));
    }
    (ChildOutcome::Ok, Some(tape))
}

fn load_known(prop: &str) -> (Vec<Value>, Vec<String>) {
    let path = verif_root().join("known-findings.json");
    let Ok(text) = std::fs::read_to_string(&path) else {
        return (Vec::new(), Vec::new());
    };
    let Ok(value) = serde_json::from_str::<Value>(&text) else {
        eprintln!("[simctl] known-findings.json is not valid JSON");
        std::process::exit(2);
    };
    let mut open = Vec::new();
    let mut avoid = BTreeSet::new();
    if let Some(items) = value["findings"].as_array() {
        for item in items {
            if item["property"].as_str() == Some(prop) && item["status"].as_str() == Some("open") {
                if let Some(features) = item["avoid_features"].as_array() {
                    for f in features {
                        if let Some(f) = f.as_str() {
                            avoid.insert(f.to_string());
                        }
                    }
                }
                open.push(item.clone());
            }
        }
    }
    (open, avoid.into_iter().collect())
}

/// Does this violation fall under a listed known finding?
///
/// An entry matches on the property and either the exact (kind, signature) pair or, when it
/// lists `requires_features`, on a kind prefix plus all of those features being present in
/// the '+'-separated signature of the violation.
fn known_match(entry: &Value, v: &Violation) -> bool {
    if entry["property"].as_str() != Some(v.property.as_str()) {
        return false;
    }
    if let Some(required) = entry["requires_features"].as_array() {
        let have: Vec<&str> = v.signature.split('+').collect();
        let prefix = entry["kind_prefix"].as_str().unwrap_or("");
        return v.kind.starts_with(prefix) && required.iter().filter_map(|f| f.as_str()).all(|f| have.contains(&f));
    }
    entry["kind"].as_str() == Some(v.kind.as_str()) && entry["signature"].as_str() == Some(v.signature.as_str())
}

fn tape_of(v: &Value) -> Vec<u32> {
    v.as_array()
        .map(|a| a.iter().filter_map(|x| x.as_u64().map(|x| x as u32)).collect())
        .unwrap_or_default()
}

/// Replay a replay file in a fresh process; returns (reproduced, message)
pub fn replay_file(path: &Path, worlds: &[World]) -> Result<(bool, String, Option<Violation>), String> {
    let text = std::fs::read_to_string(path).map_err(|e| format!("can not read {}: {e}", path.display()))?;
    let rec: Value = serde_json::from_str(&text).map_err(|e| format!("bad replay file: {e}"))?;
    let world_name = rec["world"].as_str().ok_or("replay: no world")?;
    let world = worlds.iter().find(|w| w.name == world_name).ok_or("replay: unknown world")?;
    let prop = rec["property"].as_str().ok_or("replay: no property")?;
    let tier = Tier::parse(rec["tier"].as_str().unwrap_or("quick")).unwrap_or(Tier::Quick);
    let avoid: Vec<String> = rec["avoid"]
        .as_array()
        .map(|a| a.iter().filter_map(|x| x.as_str().map(String::from)).collect())
        .unwrap_or_default();
    let tape = tape_of(&rec["tape"]);
    let expected = Violation::from_json(&rec["violation"]).ok_or("replay: no violation")?;
    let expected_hash = rec["trace_hash"].as_str().unwrap_or("");
    match exec_child(world, prop, tier, &avoid, &tape, Duration::from_secs(20)) {
        ChildOutcome::Ok => Ok((false, "run finished without violation".to_string(), None)),
        ChildOutcome::Violation { violation, trace_hash, .. } => {
            if violation.key() == expected.key() {
                let same_trace = expected_hash.is_empty() || trace_hash == expected_hash;
                Ok((
                    true,
                    format!(
                        "reproduced {} [{}] {} (trace {})",
                        violation.property,
                        violation.kind,
                        violation.signature,
                        if same_trace { "identical" } else { "DIFFERS" }
                    ),
                    Some(violation),
                ))
            } else {
                Ok((false, format!("different violation: {:?}", violation), Some(violation)))
            }
        }
        ChildOutcome::Died { signature, detail } => {
            if signature == expected.signature {
                Ok((true, format!("reproduced {} [{}] {}", expected.property, expected.kind, signature), Some(expected)))
            } else {
                Ok((false, format!("process died differently: {signature}: {detail}"), None))
            }
        }
        ChildOutcome::HarnessError(msg) => Err(msg),
    }
}

fn write_replay(rec: &Value) -> PathBuf {
    let dir = std::env::var("VERIF_REPLAY_DIR").map(PathBuf::from).unwrap_or_else(|_| verif_root().join("replays"));
    let _ = std::fs::create_dir_all(&dir);
    let v = &rec["violation"];
    let key = format!(
        "{}|{}|{}",
        v["property"].as_str().unwrap_or(""),
        v["kind"].as_str().unwrap_or(""),
        v["signature"].as_str().unwrap_or("")
    );
    let hash = crate::tape::fnv1a(key.as_bytes());
    let path = dir.join(format!("{}-{:016x}.json", rec["property"].as_str().unwrap_or("X"), hash));
    let text = serde_json::to_string_pretty(rec).unwrap();
    std::fs::write(&path, text).expect("write replay");
    path
}

pub fn check_main(worlds: &[World], args: CheckArgs) -> i32 {
    let started = Instant::now();
    let selected: Vec<&World> = worlds.iter().filter(|w| w.properties.contains(&args.prop.as_str())).filter(|w| args.only_world.as_deref().is_none_or(|name| name == w.name)).collect();
    if selected.is_empty() {
        eprintln!("[simctl] no world decides property {}", args.prop);
        return 2;
    }
    let workers = args.workers.max(1) as u64;

    // ---- known findings: replay each, announce those that still fail
    let (known, avoid) = load_known(&args.prop);
    let mut known_lines = Vec::new();
    for item in known.iter() {
        let what = item["what"].as_str().unwrap_or("");
        let replay = item["replay"].as_str().unwrap_or("");
        let id = item["id"].as_str().unwrap_or("");
        let path = verif_root().join(replay);
        match replay_file(&path, worlds) {
            Ok((reproduced, msg, violation)) if reproduced || violation.as_ref().map(|v| known_match(item, v)).unwrap_or(false) => {
                let _ = msg;
                let line = format!("KNOWN-FINDING: property={} {} [{}]", args.prop, what, id);
                println!("{line}");
                known_lines.push(line);
            }
            Ok((_, msg, _)) => {
                println!("[simctl] note: known finding {} no longer reproduces: {}", id, msg);
            }
            Err(msg) => {
                eprintln!("[simctl] harness error while replaying known finding {replay}: {msg}");
                return 2;
            }
        }
    }

    // ---- exploration
    let mut agg = Agg::default();
    let mut records: Vec<Value> = Vec::new();
    let mut restarts = 0;
    let mut per_world: Vec<Value> = Vec::new();
    for world in selected.iter().copied() {
    let runs_before = agg.runs;
    let world_started = Instant::now();
    let total_runs = args.runs.unwrap_or_else(|| (world.runs)(&args.prop, args.tier));
    let mut died: Vec<(u64, String)> = Vec::new();
    let per_worker = total_runs.div_ceil(workers);
    let mut pending: Vec<(u64, u64)> = (0..workers).map(|w| (w, per_worker)).collect(); // (start, count)
    while !pending.is_empty() {
        let elapsed = started.elapsed().as_secs();
        if elapsed >= args.deadline_secs {
            agg.truncated = true;
            break;
        }
        let remaining = args.deadline_secs - elapsed;
        let batch: Vec<(u64, u64)> = std::mem::take(&mut pending);
        let children: Vec<_> = batch
            .iter()
            .map(|(start, count)| (*start, *count, spawn_worker(world, &args, &avoid, *start, workers, *count, remaining)))
            .collect();
        let handles: Vec<_> = children
            .into_iter()
            .map(|(start, count, child)| std::thread::spawn(move || (start, count, collect_worker(child))))
            .collect();
        for handle in handles {
            let (start, count, out) = handle.join().expect("collector thread");
            if let Some(summary) = &out.summary {
                agg.merge(summary);
            }
            records.extend(out.violations);
            match out.end {
                WorkerEnd::Done => {}
                WorkerEnd::HarnessError(msg) => {
                    eprintln!("[simctl] HARNESS ERROR: {msg}");
                    return 2;
                }
                WorkerEnd::DiedMinimising { index, record } => {
                    // minimise through child processes instead
                    let tape = tape_of(&record["tape"]);
                    let avoid_rec: Vec<String> = record["avoid"].as_array().map(|a| a.iter().filter_map(|x| x.as_str().map(String::from)).collect()).unwrap_or_default();
                    let class = Violation::from_json(&record["violation"]).map(|v| format!("{}|{}", v.property, v.kind)).unwrap_or_default();
                    let (min_tape, spent) = minimise(&tape, 400, |cand| {
                        matches!(exec_child(world, &args.prop, args.tier, &avoid_rec, cand, Duration::from_secs(20)), ChildOutcome::Violation { violation, .. } if format!("{}|{}", violation.property, violation.kind) == class)
                    });
                    let mut rec = record.clone();
                    if let ChildOutcome::Violation { violation, trace_hash, trace } = exec_child(world, &args.prop, args.tier, &avoid_rec, &min_tape, Duration::from_secs(20)) {
                        rec["tape"] = json!(min_tape);
                        rec["violation"] = violation.to_json();
                        rec["trace_hash"] = json!(trace_hash);
                        rec["trace"] = json!(trace);
                        rec["minimise_candidates"] = json!(spent);
                    }
                    records.push(rec);
                    let done = (index - start) / workers + 1;
                    agg.runs += done;
                    agg.violating_runs += 1;
                    restarts += 1;
                    if restarts <= 24 && done < count {
                        pending.push((index + workers, count - done));
                    } else if done < count {
                        agg.truncated = true;
                    }
                }
                WorkerEnd::Died { index, how } => {
                    died.push((index, how));
                    // runs before `index` in this block are lost for statistics, but were executed
                    let done = (index - start) / workers + 1;
                    agg.runs += done;
                    restarts += 1;
                    if restarts <= 24 && done < count {
                        pending.push((index + workers, count - done));
                    } else if done < count {
                        agg.truncated = true;
                    }
                    let _ = out.last_index;
                }
            }
        }
    }

    // ---- aborts / hangs: confirm alone, minimise through child processes
    // every death costs child processes that run into a timeout: analyse the first few only
    if died.len() > 3 {
        eprintln!("[simctl] {} worker deaths in world {}, analysing the first 3", died.len(), world.name);
    }
    let mut seen_signatures: std::collections::BTreeSet<String> = Default::default();
    for (index, how) in died.iter().take(3) {
        let ctx_avoid: Vec<String> = if !avoid.is_empty() && index % 8 != 0 { avoid.clone() } else { Vec::new() };
        let (outcome, tape) = exec_index_child(world, &args, &ctx_avoid, *index);
        let ChildOutcome::Died { signature, detail } = outcome else {
            if how == "hang" {
                // the limit of a child is a little longer than the one of a worker: a run that
                // needs more processor time than the worker allows but ends on its own is a
                // slow run, not a hang (and not a reason to call the check broken)
                eprintln!("[simctl] note: run {index} of world {} exceeded the watchdog limit in its worker but terminates when run alone: slow, not hung", world.name);
                continue;
            }
            eprintln!(
                "[simctl] HARNESS ERROR: worker died at index {index} ({how}) but the run does not fail alone"
            );
            return 2;
        };
        let tape = tape.unwrap_or_default();
        let kind = if signature == "hang" { format!("{}.hang", args.prop) } else { format!("{}.abort", args.prop) };
        let is_hang = signature == "hang";
        let budget = if is_hang { 12 } else { 300 };
        let timeout = Duration::from_secs(if is_hang { 12 } else { 20 });
        let want = signature.clone();
        // wall-clock bound: candidates tried after it count as "does not fail", which only
        // makes the stored tape less minimal; a signature already minimised once is not redone
        let min_started = Instant::now();
        let min_wall = Duration::from_secs(if seen_signatures.insert(signature.clone()) { 150 } else { 0 });
        let (min_tape, spent) = minimise(&tape, budget, |cand| {
            min_started.elapsed() < min_wall
                && matches!(exec_child(world, &args.prop, args.tier, &ctx_avoid, cand, timeout), ChildOutcome::Died { signature, .. } if signature == want)
        });
        // final confirmation + obtain the trace up to the crash is impossible in-process; store what we know
        let final_outcome = exec_child(world, &args.prop, args.tier, &ctx_avoid, &min_tape, timeout);
        let (min_tape, detail) = match final_outcome {
            ChildOutcome::Died { signature: s, detail: d } if s == signature => (min_tape, d),
            _ => (tape.clone(), detail),
        };
        let violation = Violation::new(&args.prop, &kind, signature.clone(), detail);
        records.push(json!({
            "property": args.prop,
            "world": world.name,
            "tier": args.tier.name(),
            "seed": args.seed,
            "index": index,
            "avoid": ctx_avoid,
            "tape": min_tape,
            "original_tape": tape,
            "minimise_candidates": spent,
            "violation": violation.to_json(),
            "trace_hash": "",
            "trace": [format!("process died while executing this tape: {}", how)],
        }));
        agg.violating_runs += 1;
        *agg.violation_keys.entry(violation.key()).or_default() += 1;
    }
    per_world.push(json!({
        "world": world.name,
        "runs": agg.runs - runs_before,
        "wall_s": world_started.elapsed().as_secs_f64(),
        "real_components": world.real,
        "stub_components": world.stub,
        "rule": world.rule,
    }));
    }

    // ---- dedup, known-findings protocol, replay confirmation
    let mut by_key: BTreeMap<String, Value> = BTreeMap::new();
    for rec in records {
        let Some(v) = Violation::from_json(&rec["violation"]) else { continue };
        let key = v.key();
        let shorter = match by_key.get(&key) {
            None => true,
            Some(old) => tape_of(&rec["tape"]).len() < tape_of(&old["tape"]).len(),
        };
        if shorter {
            by_key.insert(key, rec);
        }
    }
    let mut new_violations = 0;
    let mut violation_lines = Vec::new();
    let mut known_met: BTreeMap<String, u64> = BTreeMap::new();
    for (_key, rec) in by_key.iter() {
        if let Some(v) = Violation::from_json(&rec["violation"]) {
            if let Some(entry) = known.iter().find(|entry| known_match(entry, &v)) {
                // listed finding met again during exploration: announced above, not a new violation
                *known_met.entry(entry["id"].as_str().unwrap_or("?").to_string()).or_default() += 1;
                continue;
            }
        }
        let path = write_replay(rec);
        match replay_file(&path, worlds) {
            Ok((true, msg, _)) => {
                new_violations += 1;
                let v = &rec["violation"];
                println!(
                    "[simctl] {} kind={} signature={}\n         detail: {}\n         {}",
                    v["property"].as_str().unwrap_or(""),
                    v["kind"].as_str().unwrap_or(""),
                    v["signature"].as_str().unwrap_or(""),
                    v["detail"].as_str().unwrap_or(""),
                    msg
                );
                let line = format!("VIOLATION property={} replay={}", args.prop, path.display());
                println!("{line}");
                violation_lines.push(line);
            }
            Ok((false, msg, _)) => {
                eprintln!("[simctl] HARNESS ERROR: replay file {} does not reproduce: {}", path.display(), msg);
                return 2;
            }
            Err(msg) => {
                eprintln!("[simctl] HARNESS ERROR: replay failed: {msg}");
                return 2;
            }
        }
    }

    // ---- evidence
    let wall = started.elapsed().as_secs_f64();
    let zero_probes: Vec<&String> = agg.probes.iter().filter(|(_, v)| **v == 0).map(|(k, _)| k).collect();
    let _ = zero_probes;
    if !args.no_evidence {
        let mut samples = agg.samples.clone();
        if samples.is_empty() {
            samples.push(json!({"note": "no non-trivial sample recorded"}));
        }
        let evidence = json!({
            "property_id": args.prop,
            "tier": args.tier.name(),
            "seed": args.seed,
            "level": "exploration",
            "coverage": {
                "evaluations": agg.runs,
                "distinct_nontrivial": agg.sigs.len(),
                "rule": selected.iter().map(|w| format!("[{}] {}", w.name, w.rule)).collect::<Vec<_>>().join(" || "),
                "samples": samples,
                "worlds": per_world,
                "nontrivial_runs": agg.nontrivial,
                "distinct_schedule_signatures": agg.all_sigs.len(),
                "simulation_steps": agg.steps,
                "tape_draws": agg.draws,
                "simulated_seconds": agg.sim_ns as f64 / 1e9,
                "faults_fired": agg.faults,
                "probes": agg.probes,
                "runs_per_hour": if wall > 0.0 { (agg.runs as f64 / wall * 3600.0) as u64 } else { 0 },
                "workers": workers,
                "truncated_by_deadline": agg.truncated,
                "worker_restarts_after_abort": restarts,
                "violating_runs": agg.violating_runs,
                "violation_keys": agg.violation_keys,
                "known_findings_reported": known_lines,
                "known_findings_met_during_exploration": known_met,
                "real_components": selected.iter().flat_map(|w| w.real.iter()).collect::<Vec<_>>(),
                "stub_components": selected.iter().flat_map(|w| w.stub.iter()).collect::<Vec<_>>(),
                "exhaustive": false,
            },
            "assumptions": selected.iter().flat_map(|w| w.assumptions.iter()).collect::<Vec<_>>(),
            "wall_s": wall,
            "violations": new_violations,
        });
        // VERIF_EVIDENCE_DIR: sensitivity / debugging runs keep their evidence away from /verif/evidence
        let dir = std::env::var_os("VERIF_EVIDENCE_DIR").map(std::path::PathBuf::from).unwrap_or_else(|| verif_root().join("evidence"));
        let _ = std::fs::create_dir_all(&dir);
        let path = dir.join(format!("{}.json", args.prop));
        if let Err(err) = std::fs::write(&path, serde_json::to_string_pretty(&evidence).unwrap()) {
            eprintln!("[simctl] HARNESS ERROR: can not write evidence: {err}");
            return 2;
        }
    }
    println!(
        "[simctl] {} {} worlds={} runs={} nontrivial={} distinct={} steps={} faults={} wall={:.1}s violations={} known={}",
        args.prop,
        args.tier.name(),
        selected.iter().map(|w| w.name).collect::<Vec<_>>().join("+"),
        agg.runs,
        agg.nontrivial,
        agg.sigs.len(),
        agg.steps,
        agg.faults.values().sum::<u64>(),
        wall,
        new_violations,
        known_lines.len(),
    );
    if new_violations > 0 {
        1
    } else {
        0
    }
}
