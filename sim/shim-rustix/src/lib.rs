//! Pass-through wrapper around the genuine `rustix` crate (renamed `real`).
//!
//! Everything is re-exported unchanged. The few syscalls that `src/unix.rs`
//! performs on the tty are overridden by explicit items (explicit items shadow
//! glob re-exports): when a simulated kernel is installed for the calling
//! thread and the file descriptor is the registered simulated tty, the call is
//! answered by the simulation; every other call goes to the real syscall.
pub use real::*;

pub mod sim {
    //! Seam owned by the simulator.
    use real::event::FdSetElement;
    use real::fs::OFlags;
    use real::io;
    use real::termios::{OptionalActions, Termios, Winsize};
    use std::cell::{Cell, RefCell};
    use std::os::fd::RawFd;
    use std::time::Duration;

    /// Simulated kernel as seen by the library under test.
    pub trait Hooks {
        fn read(&mut self, buf: &mut [u8]) -> io::Result<usize>;
        fn write(&mut self, buf: &[u8]) -> io::Result<usize>;
        /// `select` is always routed to the simulation while hooks are installed
        fn select(
            &mut self,
            nfds: i32,
            readfds: Option<&mut [FdSetElement]>,
            writefds: Option<&mut [FdSetElement]>,
            timeout: Option<Duration>,
        ) -> io::Result<i32>;
        fn isatty(&mut self) -> bool;
        fn tcgetattr(&mut self) -> io::Result<Termios>;
        fn tcsetattr(&mut self, actions: OptionalActions, termios: &Termios) -> io::Result<()>;
        fn tcgetwinsize(&mut self) -> io::Result<Winsize>;
        fn getfl(&mut self) -> io::Result<OFlags>;
        fn setfl(&mut self, flags: OFlags) -> io::Result<()>;
    }

    thread_local! {
        static SIM_FD: Cell<RawFd> = const { Cell::new(-1) };
        static HOOKS: RefCell<Option<Box<dyn Hooks>>> = const { RefCell::new(None) };
    }

    /// Install simulated kernel for the current thread, `fd` is the simulated tty
    pub fn install(fd: RawFd, hooks: Box<dyn Hooks>) {
        SIM_FD.with(|c| c.set(fd));
        HOOKS.with(|h| *h.borrow_mut() = Some(hooks));
    }

    /// Remove simulated kernel for the current thread
    pub fn uninstall() {
        SIM_FD.with(|c| c.set(-1));
        HOOKS.with(|h| *h.borrow_mut() = None);
    }

    pub fn installed() -> bool {
        SIM_FD.with(|c| c.get()) >= 0
    }

    #[inline]
    pub(crate) fn is_sim(fd: RawFd) -> bool {
        let sim = SIM_FD.with(|c| c.get());
        sim >= 0 && sim == fd
    }

    pub(crate) fn with<R>(f: impl FnOnce(&mut dyn Hooks) -> R) -> R {
        HOOKS.with(|h| {
            let mut guard = h.borrow_mut();
            let hooks = guard.as_mut().expect("[shim] hooks are not installed");
            f(hooks.as_mut())
        })
    }
}

pub mod io {
    pub use real::io::*;
    use std::os::fd::{AsFd, AsRawFd};

    #[inline]
    pub fn read<Fd: AsFd>(fd: Fd, buf: &mut [u8]) -> Result<usize> {
        if crate::sim::is_sim(fd.as_fd().as_raw_fd()) {
            crate::sim::with(|h| h.read(buf))
        } else {
            real::io::read(fd, buf)
        }
    }

    #[inline]
    pub fn write<Fd: AsFd>(fd: Fd, buf: &[u8]) -> Result<usize> {
        if crate::sim::is_sim(fd.as_fd().as_raw_fd()) {
            crate::sim::with(|h| h.write(buf))
        } else {
            real::io::write(fd, buf)
        }
    }

    /// Gather write: to the simulated kernel it is one write of the concatenation (which,
    /// like any write, may be accepted only in part)
    #[inline]
    pub fn writev<Fd: AsFd>(fd: Fd, bufs: &[std::io::IoSlice<'_>]) -> Result<usize> {
        if crate::sim::is_sim(fd.as_fd().as_raw_fd()) {
            let mut all = Vec::new();
            for buf in bufs {
                all.extend_from_slice(buf);
            }
            crate::sim::with(|h| h.write(&all))
        } else {
            real::io::writev(fd, bufs)
        }
    }

    /// Scatter read: one read into a buffer of the total size, distributed over the slices
    #[inline]
    pub fn readv<Fd: AsFd>(fd: Fd, bufs: &mut [std::io::IoSliceMut<'_>]) -> Result<usize> {
        if crate::sim::is_sim(fd.as_fd().as_raw_fd()) {
            let total: usize = bufs.iter().map(|b| b.len()).sum();
            let mut all = vec![0u8; total];
            let n = crate::sim::with(|h| h.read(&mut all))?;
            let mut done = 0;
            for buf in bufs.iter_mut() {
                let take = buf.len().min(n - done);
                buf[..take].copy_from_slice(&all[done..done + take]);
                done += take;
                if done == n {
                    break;
                }
            }
            Ok(n)
        } else {
            real::io::readv(fd, bufs)
        }
    }
}

pub mod event {
    pub use real::event::*;

    /// # Safety
    /// same contract as the real `select`
    pub unsafe fn select(
        nfds: i32,
        readfds: Option<&mut [FdSetElement]>,
        writefds: Option<&mut [FdSetElement]>,
        exceptfds: Option<&mut [FdSetElement]>,
        timeout: Option<&real::fs::Timespec>,
    ) -> real::io::Result<i32> {
        if crate::sim::installed() {
            let timeout = timeout.map(|ts| {
                std::time::Duration::new(ts.tv_sec.max(0) as u64, ts.tv_nsec.clamp(0, 999_999_999) as u32)
            });
            crate::sim::with(|h| h.select(nfds, readfds, writefds, timeout))
        } else {
            unsafe { real::event::select(nfds, readfds, writefds, exceptfds, timeout) }
        }
    }
}

pub mod termios {
    pub use real::termios::*;
    use std::os::fd::{AsFd, AsRawFd};

    pub fn isatty<Fd: AsFd>(fd: Fd) -> bool {
        if crate::sim::is_sim(fd.as_fd().as_raw_fd()) {
            crate::sim::with(|h| h.isatty())
        } else {
            real::termios::isatty(fd)
        }
    }

    pub fn tcgetattr<Fd: AsFd>(fd: Fd) -> real::io::Result<Termios> {
        if crate::sim::is_sim(fd.as_fd().as_raw_fd()) {
            crate::sim::with(|h| h.tcgetattr())
        } else {
            real::termios::tcgetattr(fd)
        }
    }

    pub fn tcsetattr<Fd: AsFd>(
        fd: Fd,
        optional_actions: OptionalActions,
        termios: &Termios,
    ) -> real::io::Result<()> {
        if crate::sim::is_sim(fd.as_fd().as_raw_fd()) {
            crate::sim::with(|h| h.tcsetattr(optional_actions, termios))
        } else {
            real::termios::tcsetattr(fd, optional_actions, termios)
        }
    }

    pub fn tcgetwinsize<Fd: AsFd>(fd: Fd) -> real::io::Result<Winsize> {
        if crate::sim::is_sim(fd.as_fd().as_raw_fd()) {
            crate::sim::with(|h| h.tcgetwinsize())
        } else {
            real::termios::tcgetwinsize(fd)
        }
    }
}

pub mod fs {
    pub use real::fs::*;
    use std::os::fd::{AsFd, AsRawFd};

    pub fn fcntl_getfl<Fd: AsFd>(fd: Fd) -> real::io::Result<OFlags> {
        if crate::sim::is_sim(fd.as_fd().as_raw_fd()) {
            crate::sim::with(|h| h.getfl())
        } else {
            real::fs::fcntl_getfl(fd)
        }
    }

    pub fn fcntl_setfl<Fd: AsFd>(fd: Fd, flags: OFlags) -> real::io::Result<()> {
        if crate::sim::is_sim(fd.as_fd().as_raw_fd()) {
            crate::sim::with(|h| h.setfl(flags))
        } else {
            real::fs::fcntl_setfl(fd, flags)
        }
    }
}
