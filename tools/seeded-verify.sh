#!/bin/bash
# tools/seeded-verify.sh <ID> [demo-args...]: confirm a sub-agent change in its scratch worktree /tmp/seed-<ID>
#   with change: demo fails, lib tests pass; without change: demo passes.
id=$1; shift
wt=${SEED_PREFIX:-/tmp/seed}-$id; out=${SEED_PREFIX:-/tmp/seed}-$id-out
demo=$(ls $out/demo*.rs | head -1); name=$(basename $demo .rs)
cd $wt || exit 2
git checkout -q -- src && git apply $out/patch.diff || { echo "patch does not apply"; exit 2; }
mkdir -p tests; cp $demo tests/$name.rs
export CARGO_NET_OFFLINE=true
echo "== with change: demo (expect FAIL)"; cargo test --offline "$@" --test $name 2>&1 | grep -E "^test result|error(\[|:)" | head -5
echo "== with change: lib tests (expect 62 passed)"; cargo test --offline --lib 2>&1 | grep -E "^test result"
git checkout -q -- src
echo "== without change: demo (expect ok)"; cargo test --offline "$@" --test $name 2>&1 | grep -E "^test result|error(\[|:)" | head -5
