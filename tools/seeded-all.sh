#!/bin/bash
# run every seeded change against its property's quick check (scratch worktree mode)
cd "$(dirname "$0")/.."
fail=0
for d in seeded/*/; do
  d=$(basename $d); prop=$(python3 -c "import json;print(json.load(open('seeded/$d/meta.json'))['property'])")
  # a change that a later repair of /repo made harmless (its own demonstration passes with it)
  sup=$(python3 -c "import json;print(json.load(open('seeded/$d/meta.json')).get('superseded_by',''))")
  if [ -n "$sup" ]; then echo "$d $prop SKIP: harmless since repair $sup (see meta.json)"; continue; fi
  out=$(tools/seeded-run.sh $d $prop quick 2>/dev/null); echo "$out" | head -1
  echo "$out" | head -1 | grep -q "rc=1" || fail=1
done
rm -rf sim/target-alt
exit $fail
