#!/bin/bash
# run every seeded change against its property's quick check (scratch worktree mode)
cd "$(dirname "$0")/.."
fail=0
for d in seeded/*/; do
  d=$(basename $d); prop=$(python3 -c "import json;print(json.load(open('seeded/$d/meta.json'))['property'])")
  out=$(tools/seeded-run.sh $d $prop quick 2>&1); echo "$out" | head -1
  echo "$out" | head -1 | grep -q "rc=1" || fail=1
done
rm -rf sim/target-alt
exit $fail
