#!/bin/bash
# tools/seeded-run.sh <dir under seeded/> <property> [tier]
# Runs the check of <property> against the seeded change. Default: on a scratch worktree of /repo
# (SNT_REPO), so that /repo itself is never touched while background sweeps are using it.
# With IN_PLACE=1: git -C /repo apply; ./check; git -C /repo checkout -- .   (as the brief describes)
d=$1; prop=$2; tier=${3:-quick}
cd "$(dirname "$0")/.."
if [ -n "${IN_PLACE:-}" ]; then
  git -C /repo diff --quiet || { echo "/repo is dirty"; exit 2; }
  git -C /repo apply "$PWD/seeded/$d/patch.diff" || exit 2
  out=$(VERIF_REPLAY_DIR=/tmp/seeded-replays/$d ./check $prop $tier --no-evidence 2>&1); rc=$?
  git -C /repo checkout -- .
else
  S=/tmp/snt-seeded-$$
  git -C /repo worktree remove --force $S >/dev/null 2>&1; rm -rf $S
  git -C /repo worktree add -q --detach $S HEAD || exit 2
  git -C $S apply "$PWD/seeded/$d/patch.diff" || { echo "$d: patch does not apply to HEAD"; git -C /repo worktree remove --force $S; exit 2; }
  out=$(SNT_REPO=$S VERIF_REPLAY_DIR=/tmp/seeded-replays/$d ./check $prop $tier --no-evidence ${SEEDED_SEED:+--seed $SEEDED_SEED} 2>&1); rc=$?
  git -C /repo worktree remove --force $S
fi
echo "$d $prop $tier rc=$rc: $(echo "$out" | grep -E 'kind=' | sed 's/.*kind=//' | cut -c1-90 | sort -u | head -4 | tr '\n' ';')"
echo "$out" | tail -1 | cut -c1-200
