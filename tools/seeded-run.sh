#!/bin/bash
# tools/seeded-run.sh <dir under seeded/> <property> [tier]: apply the change to /repo, run the check, undo
d=$1; prop=$2; tier=${3:-quick}
cd "$(dirname "$0")/.."
git -C /repo diff --quiet || { echo "/repo is dirty"; exit 2; }
git -C /repo apply "$PWD/seeded/$d/patch.diff" || exit 2
out=$(VERIF_REPLAY_DIR=/tmp/seeded-replays/$d ./check $prop $tier --no-evidence 2>&1); rc=$?
git -C /repo checkout -- .
echo "$d $prop $tier rc=$rc: $(echo "$out" | grep -m3 -E 'kind=' | cut -c1-200 | tr '\n' ' ')"
echo "$out" | tail -1 | cut -c1-200
