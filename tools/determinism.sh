#!/bin/bash
# Determinism proof: every run index must give the same outcome, trace hash, schedule signature
# and number of tape draws when executed twice, in different processes, in different batch
# compositions (one process doing all of them in order vs. 8 processes doing slices).
# usage: tools/determinism.sh [N per property]   (exit 2 on any mismatch: a harness error)
cd "$(dirname "$0")/.."
./check --build || exit 2
N="${1:-400}"
BIN=sim/target/release/simctl
fail=0
for p in ${PROPS:-C01 C02 C03 C06 C09 C11 C12 C14 C16 C17}; do
  a=$(mktemp); b=$(mktemp)
  $BIN determinism $p $N 0 > $a 2>/dev/null
  slice=$((N/8))
  for i in 7 3 5 1 0 2 4 6; do $BIN determinism $p $slice $((i*slice)) 2>/dev/null; done | sort -k1,1n -k2,2 > $b
  awk -v m=$((slice*8)) '$1 < m' $a | sort -k1,1n -k2,2 > $a.s
  if cmp -s $a.s $b; then echo "determinism $p: $((slice*8)) runs per world ($(cut -d" " -f2 $a.s | sort -u | tr "\n" " ")) identical across processes and batch orders"; else echo "determinism $p: MISMATCH"; diff $a.s $b | head -5; fail=2; fi
  rm -f $a $b $a.s
done
exit $fail
