#!/bin/bash
# run quick checks of the given properties under several seeds; report any non-zero exit
cd "$(dirname "$0")/.."
props="${PROPS:-C01 C02 C03 C06 C09 C11 C12 C14 C16 C17}"
seeds="${SEEDS:-1 2 3 4 5 6 7 8}"
export VERIF_REPLAY_DIR="${VERIF_REPLAY_DIR:-$PWD/sweep-replays}"
fail=0
for s in $seeds; do
  for p in $props; do
    out=$(VERIF_SEED=$s ./check $p ${TIER:-quick} --no-evidence 2>&1); rc=$?
    echo "seed=$s $p rc=$rc $(echo "$out" | tail -1 | cut -c1-160)"
    if [ $rc -ne 0 ]; then fail=1; echo "$out" | grep -E "kind=|detail|VIOLATION|HARNESS" | cut -c1-400; fi
  done
done
exit $fail
