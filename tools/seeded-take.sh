#!/bin/bash
# tools/seeded-take.sh <prefix> <ID> <round> [verify args]: verify in scratch worktree, copy to seeded/, run check
pre=$1; id=$2; round=$3; shift 3
export SEED_PREFIX=$pre
cd "$(dirname "$0")/.."
tools/seeded-verify.sh $id "$@" 2>&1 | grep -E "^==|^test result|does not apply"
d=seeded/$id-$round; mkdir -p $d
cp $pre-$id-out/patch.diff $d/; cp $pre-$id-out/demo.rs $d/demo_$(echo $id | tr A-Z a-z)_$round.rs; cp $pre-$id-out/notes.md $d/agent-notes.md
tools/seeded-run.sh $id-$round $id quick
