#!/bin/bash
# tools/seeded-take.sh <prefix> <name> <seeded-dir-name> <property> [verify args]
#   verify the change in its scratch worktree <prefix>-<name>, copy it to seeded/<dir>, run the check
pre=$1; name=$2; dir=$3; prop=$4; shift 4
export SEED_PREFIX=$pre
cd "$(dirname "$0")/.."
timeout 600 tools/seeded-verify.sh $name "$@" 2>&1 | grep -E "^==|^test result|does not apply"
d=seeded/$dir; mkdir -p $d
cp $pre-$name-out/patch.diff $d/; cp $pre-$name-out/demo.rs $d/demo_$(echo $dir | tr A-Z a-z | tr - _).rs; cp $pre-$name-out/notes.md $d/agent-notes.md
tools/seeded-run.sh $dir $prop quick
