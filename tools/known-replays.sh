#!/bin/bash
# tools/known-replays.sh: every replay file of an open known finding must still reproduce its
# violation exactly (a world that gained or lost a draw makes a tape stale: tools/regen-known.sh)
cd "$(dirname "$0")/.."
bad=0
for f in known/*.json; do
  out=$(./check --replay "$f" 2>&1)
  if echo "$out" | grep -q "not reproduced"; then echo "STALE  $f: $(echo "$out" | grep -m1 'not reproduced' | cut -c1-160)"; bad=1
  elif echo "$out" | grep -q "^VIOLATION"; then echo "ok     $f"
  else echo "STALE  $f: no violation"; bad=1; fi
done
exit $bad
