#!/bin/bash
# tools/coverage.sh [runs-per-property]
# Reach measurement: builds simctl and the library under test with source-based coverage
# (nightly toolchain, llvm-tools), runs every claimed property's worlds for a sample of runs and
# reports, per anchored source file of /repo, the regions never executed by any run.
# Scratch build output lives in /tmp/snt-cov and is removed at the end. Output: reach/coverage.txt
set -u
cd "$(dirname "$0")/.."
ROOT=$PWD
RUNS=${1:-30000}
BIN=$(dirname "$(rustup which --toolchain nightly rustc)")/../lib/rustlib/x86_64-unknown-linux-gnu/bin
COV=/tmp/snt-cov
rm -rf $COV; mkdir -p $COV/prof reach
export CARGO_NET_OFFLINE=true SNT_REPO=/repo VERIF_ROOT=$ROOT
export SURF_N_TERM_VERIF_IMAGE_CACHE=6000
python3 sim/gen-shadow.py /repo || exit 2
( cd sim && CARGO_TARGET_DIR=$COV/target RUSTFLAGS="-C instrument-coverage" cargo +nightly build --release --offline -q ) 2> $COV/build.log || { tail -30 $COV/build.log; exit 2; }
for p in C01 C02 C03 C06 C09 C11 C12 C14 C16 C17; do
  LLVM_PROFILE_FILE="$COV/prof/$p-%p-%m.profraw" SIMCTL_MEM_LIMIT_MB=0 $COV/target/release/simctl check $p quick --runs $RUNS --workers 8 --no-evidence 2>&1 | tail -1 | cut -c1-160
done
$BIN/llvm-profdata merge -sparse $COV/prof/*.profraw -o $COV/all.profdata || exit 2
{
  echo "# reach of the simulation inside /repo/src (source-based coverage, $RUNS runs per property, quick tier)"
  echo "# regenerate: tools/coverage.sh; uncovered regions per file: reach/uncovered-<file>.txt"
  $BIN/llvm-cov report $COV/target/release/simctl -instr-profile=$COV/all.profdata --ignore-filename-regex='(registry|rustc|simctl|shim-rustix)' 2>/dev/null | sed 's/  */ /g'
} > reach/coverage.txt
for f in render unix decoder common encoder image terminal face surface view/text; do
  $BIN/llvm-cov show $COV/target/release/simctl -instr-profile=$COV/all.profdata /repo/src/$f.rs --show-line-counts-or-regions=false -show-line-counts 2>/dev/null \
    | awk -F'|' '$2 ~ /^ *0$/ {print $1 "|" $3}' > reach/uncovered-$(echo $f | tr / _).txt
done
rm -rf $COV
cat reach/coverage.txt
