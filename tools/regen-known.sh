#!/bin/bash
# tools/regen-known.sh <finding-id> <property> <signature-substring> [world]
#   A known-finding replay is a tape and depends on how the world reads it; after a world gained
#   or lost a draw the replay has to be produced again: the entry is taken out of
#   known-findings.json for one quick run, the minimised replay whose signature contains the
#   given text is copied to known/<id>.json, and the file is restored.
id=$1; prop=$2; want=$3; world=${4:+--world $4}
cd "$(dirname "$0")/.."
cp known-findings.json /tmp/kf-$$.json
python3 - "$id" <<'PY'
import json,sys
p='known-findings.json'; d=json.load(open(p))
d['findings']=[f for f in d['findings'] if f['id']!=sys.argv[1]]
json.dump(d,open(p,'w'),indent=1)
PY
rm -rf /tmp/rk-$$; mkdir -p /tmp/rk-$$
VERIF_REPLAY_DIR=/tmp/rk-$$ ./check $prop quick --no-evidence $world > /tmp/rk-$$/out 2>&1
cp /tmp/kf-$$.json known-findings.json; rm /tmp/kf-$$.json
file=$(grep -A3 "signature=.*$want" /tmp/rk-$$/out | grep -m1 -o "replay=.*" | cut -d= -f2)
if [ -n "$file" ] && [ -f "$file" ]; then cp "$file" known/$id.json; echo "regenerated known/$id.json from $file"; else echo "no replay with signature *$want* found"; grep "kind=" /tmp/rk-$$/out; fi
rm -rf /tmp/rk-$$
