#!/usr/bin/env python3
"""Writes /verif/MANIFEST.json from the table below (single source of truth)."""
import json, os, subprocess
ROOT = os.path.dirname(os.path.dirname(os.path.abspath(__file__)))

TECH = "deterministic simulation with fault injection: seeded search over schedules and fault sequences (tape-driven simulator, reference-model oracles, tape minimisation, replay files)"

CLAIMED = {
 "C14": dict(world="base64", ref="3.7",
   text="Seeded exploration: the real Base64Encoder/Base64Decoder run between a simulated sink (short writes, Interrupted, hard error at byte k) and a simulated source (1..n bytes per read, Interrupted, hard error, EOF) under drawn write partitions, read-size schedules and destination buffer sizes; every run is compared with an independent RFC 4648 codec. Sampling, not proof: what a clean batch shows is that no schedule/fault sequence among the 10^5..10^7 explored breaks the codec.",
   note="Trusted: the reference RFC 4648 codec (40 lines), the std::io::Read/Write contracts as implemented by the stub reader/sink, the convention that callers retry ErrorKind::Interrupted."),
 "C16": dict(world="queue+tty", ref="3.8",
   text="Seeded exploration of (a) the real IOQueue under interleaved producer/consumer/drop operation histories and (b) the real UnixTerminal (IOQueue, TTYEncoder, poll loop) on a simulated kernel tty with short writes, EAGAIN, tiny buffers and stalls; a history oracle over attributable bytes decides order, exactly-once, whole-frame dropping and the reported queue length.",
   note="Trusted: the history oracle (frames delimited by flush and drop calls), the simulated tty contract (non-blocking partial writes, level-triggered select)."),
}

NA = {
}

PLANNED = {}

def main():
    props = [json.loads(l) for l in open(os.path.join(ROOT, "properties.jsonl"))]
    ids = [p["id"] for p in props]
    extra = json.load(open(os.path.join(ROOT, "tools", "manifest-extra.json")))
    claimed = extra["claimed"]
    na = extra["not_applicable"]
    checks = []
    for pid in ids:
        if pid in claimed:
            c = claimed[pid]
            checks.append({
                "property_id": pid,
                "quick_cmd": f"./check {pid} quick",
                "thorough_cmd": f"./check {pid} thorough",
                "evidence_file": f"evidence/{pid}.json",
                "replay_cmd_template": "./check --replay {path}",
                "engine": "simctl",
                "level_claimed": {"category": "exploration", "text": c["text"], "design_ref": "DESIGN.md section " + c["ref"]},
                "level_note": c["note"],
                "technique": TECH + "; world: " + c["world"],
            })
    missing = [pid for pid in ids if pid not in claimed and pid not in na]
    assert not missing, missing
    hooks = subprocess.run(["git", "-C", "/repo", "log", "--format=%H %s"], capture_output=True, text=True).stdout.splitlines()
    hook_commits = [l.split()[0] for l in hooks if l.split(" ", 1)[1].startswith("verif-hooks:")]
    manifest = {
        "version": 1,
        "setup_cmd": "./check --build",
        "hooks": {
            "guard": "cargo feature verif-hooks",
            "enable": "checks build /repo/src/lib.rs through the generated shadow manifest sim/shadow/Cargo.toml with --features verif-hooks and with the dependency rustix replaced by the pass-through crate sim/shim-rustix (see DESIGN.md section 1.3)",
            "baseline_off_cmd": "cd /repo && cargo test --workspace --no-fail-fast --offline",
            "source_commits": hook_commits,
            "add_only": True,
        },
        "engines": [{
            "name": "simctl",
            "path": "sim/simctl",
            "serves_properties": [pid for pid in ids if pid in claimed],
            "kind_free_text": "deterministic simulator: one tape (seeded PRNG / replay) decides every schedule, fault and workload choice; worker processes; generic tape minimiser; replay files; known-findings protocol",
        }],
        "checks": checks,
        "not_applicable": [{"property_id": pid, "reason": na[pid]} for pid in ids if pid in na],
        "notes": extra.get("notes", ""),
    }
    json.dump(manifest, open(os.path.join(ROOT, "MANIFEST.json"), "w"), indent=1)
    print("claimed", [c["property_id"] for c in checks], "na", len(manifest["not_applicable"]))

main()
