#!/bin/bash
# tools/seeded-some.sh <property>...: seeded-all restricted to the changes of the given properties
cd "$(dirname "$0")/.."
fail=0
for d in seeded/*/; do
  d=$(basename $d); prop=$(python3 -c "import json;print(json.load(open('seeded/$d/meta.json'))['property'])")
  case " $* " in *" $prop "*) ;; *) continue ;; esac
  sup=$(python3 -c "import json;print(json.load(open('seeded/$d/meta.json')).get('superseded_by',''))")
  if [ -n "$sup" ]; then echo "$d $prop SKIP: harmless since repair $sup (see meta.json)"; continue; fi
  out=$(tools/seeded-run.sh $d $prop quick 2>/dev/null); echo "$out" | head -1
  echo "$out" | head -1 | grep -q "rc=1" || fail=1
done
exit $fail
