#!/bin/bash
# Sensitivity: apply each deliberate break (mutants/*.patch) to a scratch worktree of /repo
# (never to /repo itself), run the quick check of the property it breaks and expect a VIOLATION.
# usage: tools/selftest.sh [name-glob]
cd "$(dirname "$0")/.."
SCRATCH=/tmp/snt-mut
pattern="${1:-*}"
git -C /repo worktree remove --force "$SCRATCH" >/dev/null 2>&1
rm -rf "$SCRATCH"
git -C /repo worktree add -q --detach "$SCRATCH" HEAD || exit 2
ok=0; bad=0
for patch in mutants/$pattern.patch; do
  name=$(basename "$patch" .patch)
  prop=$(head -1 "mutants/$name.meta")
  git -C "$SCRATCH" checkout -q -- . && git -C "$SCRATCH" apply "$PWD/$patch" || { echo "$name: patch does not apply"; bad=$((bad+1)); continue; }
  out=$(SNT_REPO="$SCRATCH" VERIF_REPLAY_DIR=/tmp/snt-mut-verif ./check "$prop" quick --no-evidence ${SELFTEST_ARGS:-} 2>&1)
  rc=$?
  if [ $rc -eq 1 ]; then
    echo "CAUGHT  $name ($prop): $(echo "$out" | grep -m1 'kind=' | cut -c1-160)"
    ok=$((ok+1))
  else
    echo "MISSED  $name ($prop) rc=$rc: $(echo "$out" | tail -1 | cut -c1-200)"
    bad=$((bad+1))
  fi
done
git -C /repo worktree remove --force "$SCRATCH"
rm -rf /tmp/snt-mut-verif sim/target-alt
echo "selftest: caught=$ok missed=$bad"
[ $bad -eq 0 ]
